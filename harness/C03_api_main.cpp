// C03 — target sort_api: the public entry points, overload forms and observers that sort_small / sort_big do not reach
// (see harness/C03_api.hpp for the list). Decoder only; the runners live in harness/C03_api_*.cpp.
#include "C03_api.hpp"

namespace {

using namespace c03;

void run_api_case(const ApiCase& c) {
    switch (c.arep) {
    case AR_CHAR: api_char(c); break;
    case AR_CCHAR: api_cchar(c); break;
    case AR_UCHAR: api_uchar(c); break;
    case AR_CUCHAR: api_cuchar(c); break;
    case AR_STD: api_std(c); break;
    case AR_UPTR: api_uptr(c); break;
    default: api_suffix(c); break;
    }
}

} // namespace

PBT_PROPERTY(sort_api) {
    ApiCase c;
    Shape sh;
    // selectors first
    c.arep = (int)src.weighted({3, 2, 2, 1, 2, 2, 2});
    c.algo = (int)src.range(0, 7);
    c.lcpmode = (int)src.weighted({2, 3, 3});
    c.memclass = (int)src.weighted({5, 2, 2, 6, 1});
    unsigned win = (unsigned)src.weighted({2, 3});
    c.winform = (int)src.range(0, 3);
    c.ctor = (int)src.weighted({4, 1, 1});
    unsigned dsel = (unsigned)src.weighted({2, 2, 1, 1, 1}); // 0: depth 0; 1..4: = common, 1, common-1, somewhere
    unsigned genmode = (unsigned)src.weighted({2, 3});
    unsigned sizeclass = (unsigned)src.weighted({1, 3, 6, 2});
    set_alphabet(sh, src.u8() % 25);
    static const int STY[] = {S_MIXED, S_RANDOM, S_DOMINANT, S_FEWDISTINCT, S_CHAIN};
    sh.style = STY[src.weighted({5, 2, 2, 1, 2})];
    unsigned qclass = (unsigned)src.weighted({3, 4, 2}); // common prefix Q of ALL strings (only used with a start depth)
    unsigned pclass = (unsigned)src.weighted({4, 3, 3});
    static const size_t LO[] = {0, 4, 32, 300}, HI[] = {3, 31, 300, 3000};
    size_t n_exp = LO[sizeclass] + (size_t)src.range(0, (int64_t)(HI[sizeclass] - LO[sizeclass]));
    uint64_t seed = src.bits(4);
    c.mem_own = src.boolean();
    c.mem_x = (unsigned)src.range(0, 4);
    c.mem_y = (unsigned)src.range(0, 4);
    c.mem_j = (unsigned)src.range(0, 7);
    c.mem_rsel = src.u8();
    c.mem_raw = (unsigned)src.bits(2);
    c.front = 0;
    sh.maxtail = (size_t)src.range(0, 12);
    sh.distinct = 1 + (size_t)src.range(0, 7);
    sh.dominant_pct = 80 + (unsigned)src.range(0, 20);
    unsigned psel = src.u8(), qsel = src.u8();
    sh.prefix_len = pclass == 0 ? 0 : pclass == 1 ? 1 + psel % 8 : 9 + psel % 32;
    size_t qlen = qclass == 0 ? 1 + qsel % 2 : qclass == 1 ? 2 + qsel % 7 : 9 + qsel % 32;
    unsigned samode = (unsigned)src.weighted({4, 3, 2, 2});
    unsigned thr = src.u8();
    size_t woff = (size_t)src.range(0, 6), wtail = (size_t)src.range(0, 6);
    unsigned dfree = src.u8();

    // normalisation of combinations that do not exist
    const bool has_front = c.arep != AR_UPTR && c.arep != AR_SUFFIX;
    if (c.algo == A_FRONT && !(has_front && c.lcpmode <= 1)) c.algo = A_CE3; // front-ends: uint32_t LCPs, five pointer types
    if (c.ctor == 2 && c.arep != AR_SUFFIX) c.ctor = 1;
    if (c.algo == A_FRONT) {
        c.ctor = 0;
        c.winform = W_DIRECT;
        dsel = 0; // the front-ends have no depth argument
    }
    if (c.ctor != 0) c.winform = W_DIRECT;
    if (win) {
        c.off = woff;
        c.tail = wtail;
        if (c.off + c.tail == 0) c.tail = 1;
    }
    if (c.arep == AR_SUFFIX && c.ctor != 0) c.off = c.tail = 0; // Set(Container&) / Initialize cover the whole index vector
    if (c.arep == AR_SUFFIX && c.ctor == 2) dsel = 0;
    c.depth_sel = dsel == 0 ? 0 : dsel <= 3 ? dsel : 4 * (1 + dfree % 60);
    c.rep = c.arep <= AR_UCHAR ? R_UCHAR : c.arep == AR_CUCHAR ? R_CUCHAR : c.arep == AR_STD ? R_STD : c.arep == AR_UPTR ? R_UPTR : R_SUFFIX;

    // Plain-char sets: 7-bit bytes only. CharStringSet / CCharStringSet compare `char` values, which are signed on this
    // platform, while the radix steps bucket unsigned keys; the public front-ends avoid these types (they cast char** to
    // unsigned char**) and string_set.hpp does not list them among the provided abstractions, so their behaviour on bytes
    // >= 0x80 is outside the statement (observation documented in fixes/C03/Fxx-charstringset-signed-compare.txt).
    const bool plain_char = (c.arep == AR_CHAR || c.arep == AR_CCHAR);
    if (plain_char && (sh.k == 0 || sh.sym[0] >= 0x80 || sh.sym[1] >= 0x80 || sh.sym[2] >= 0x80 || sh.sym[3] >= 0x80)) {
        static const unsigned char ASCII[4] = {'a', 'b', 'c', 0x7f};
        static const unsigned char LOW[4] = {0x01, 0x02, 0x7e, 0x7f};
        memcpy(sh.sym, sh.sym[0] < 0x80 ? ASCII : LOW, 4);
        if (sh.k == 0) sh.k = 4;
        pbt::label("plain-char:alphabet-restricted-to-7bit");
    }

    // cost bound: quadratic insertion sort is the end of every memory fall-back chain
    size_t ncap = 3000;
    if (c.algo == A_INS || c.memclass == M_TINY || c.memclass == M_MKQS) ncap = 400;
    else if (c.memclass == M_THRESH) ncap = 1500;
    if (c.arep == AR_SUFFIX) ncap = std::min<size_t>(ncap, sh.k == 1 ? 150 : 300); // suffixes of repetitive texts share long prefixes

    if (genmode == 0) { // strings decoded one by one from the choice bytes
        SrcRnd r(src);
        std::string P = gen_random(r, sh, sh.prefix_len);
        size_t cap = std::min<size_t>(ncap, 300);
        while (c.strs.size() < cap && src.more()) c.strs.push_back(gen_one(r, sh, P, c.strs));
    } else { // expanded from a seed
        size_t n = n_exp;
        if (thr >= 230) {
            static const size_t TH[] = {31, 32, 33, 63, 64};
            n = TH[thr % 5];
        }
        n = std::min(n, ncap);
        PrngRnd r(seed);
        std::string P = gen_random(r, sh, sh.prefix_len);
        c.strs.reserve(n);
        while (c.strs.size() < n) c.strs.push_back(gen_one(r, sh, P, c.strs));
    }
    // a start depth needs a prefix shared by ALL strings
    std::string Q;
    if (dsel != 0) {
        PrngRnd qr(seed ^ 0x51ull);
        Q = gen_random(qr, sh, qlen);
        pbt::label("common-prefix-Q");
    }

    if (c.arep == AR_SUFFIX) {
        // text = Q s0 Q s1 Q s2 ...; the suffixes starting at the Q's all share Q
        std::vector<size_t> starts;
        for (const std::string& s : c.strs) {
            if (c.text.size() + Q.size() + s.size() > (c.ctor == 2 ? ncap : 2000)) break; // Initialize(): n = |text|
            starts.push_back(c.text.size());
            c.text += Q;
            c.text += s;
        }
        PrngRnd r(seed ^ 0x5a5a);
        size_t T = c.text.size();
        switch (c.ctor == 2 ? 2u : samode) {
        case 0: c.sa = starts; pbt::label("sa:piece-starts"); break;
        case 1: // piece starts, shuffled, with duplicates
            c.sa.resize(starts.size());
            for (size_t i = 0; i < c.sa.size(); ++i) c.sa[i] = starts[r.below(starts.size())];
            pbt::label("sa:piece-starts-dup");
            break;
        case 2:
            c.sa.resize(T);
            for (size_t i = 0; i < T; ++i) c.sa[i] = i;
            if (c.sa.size() > ncap) c.sa.resize(ncap);
            pbt::label("sa:identity");
            break;
        default: // arbitrary indices with duplicates, including the empty suffix at index T
            c.sa.resize(std::min(T, ncap));
            for (size_t i = 0; i < c.sa.size(); ++i) c.sa[i] = (size_t)r.below(T + 1);
            pbt::label("sa:arbitrary");
            break;
        }
        if (c.ctor == 2) c.sa.clear();
        c.strs.clear();
        std::vector<std::string> one(1, c.text);
        label_strings(one);
    } else {
        if (!Q.empty())
            for (std::string& s : c.strs) s = Q + s;
        label_strings(c.strs);
    }
    pbt::label(genmode == 0 ? "gen:direct" : "gen:expanded");
    if (pbt::verbose()) {
        if (c.arep == AR_SUFFIX) {
            PBT_LOG("text(" << c.text.size() << ")=" << pbt::show_bytes(c.text.substr(0, 400)) << (c.text.size() > 400 ? "..." : "")
                            << "\nindices(" << c.sa.size() << ")=");
            for (size_t i = 0; i < c.sa.size() && i < 60; ++i) PBT_LOG(c.sa[i] << " ");
            PBT_LOG((c.sa.size() > 60 ? "...\n" : "\n"));
        } else {
            PBT_LOG("strings(" << c.strs.size() << ")=");
            for (size_t i = 0; i < c.strs.size() && i < 60; ++i)
                PBT_LOG(pbt::show_bytes(c.strs[i].substr(0, 60)) << (c.strs[i].size() > 60 ? "..+" : "") << " ");
            PBT_LOG((c.strs.size() > 60 ? "...\n" : "\n"));
        }
    }
    run_api_case(c);
}
