// C15 (types) — family 0, configurations 9..11 (see C15_types_impl.hpp)
#include "C15_types_impl.hpp"
void c15_types_fam0_d(int cfg, const c15t::Case& c) { c15t::types_family_d<0>(cfg, c); }
