// C07 — target pmerge_api, form 0: every argument that has a default may be omitted. Element Rec ordered by operator<
// (key only), DEFAULT comparator std::less<Rec>; inputs through `const Rec*` (Rec* while tlx rejects const inputs, see API_CONST_IN); pairs in a std::vector; counting output.
#include "C07_api.hpp"

namespace c07 {
struct ApiForm0 {
    using El = ElRec;
    using InK = InPtrMaybeConst<Rec>;
    using PairsK = PairsVec<InK::In>;
    using OutK = OutCount<Rec>;
    using Cmp = std::less<Rec>;
    static constexpr bool has_default = true;
    static Cmp make_cmp(bool) { return Cmp(); }
    static bool cmp_intact(const Cmp&, bool) { return true; }
};
ApiResult run_api_f0(const ApiCase& c) { return run_form_both<ApiForm0>(c); }
} // namespace c07
