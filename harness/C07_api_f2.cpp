// C07 — target pmerge_api, form 2: the comparator is a CLOSURE with captures (not default-constructible, not
// copy-assignable); inputs through std::vector<Rec>::const_iterator (or ::iterator, see API_CONST_IN); pairs in a plain array; output through Rec*.
#include "C07_api.hpp"

namespace c07 {
inline auto api_make_closure(bool desc) {
    const int salt = 0x5a17;
    return [desc, salt](const Rec& a, const Rec& b) {
        if (salt != 0x5a17) pbt::fatal("C07/comparator-lost", "merge used a closure that is not a copy of the one passed");
        return desc ? b.key < a.key : a.key < b.key;
    };
}
struct ApiForm2 {
    using El = ElRec;
    using InK = InVecItMaybeConst<Rec>;
    using PairsK = PairsRaw<InK::In>;
    using OutK = OutRaw<Rec>;
    using Cmp = decltype(api_make_closure(false));
    static constexpr bool has_default = false;
    static Cmp make_cmp(bool desc) { return api_make_closure(desc); }
    static bool cmp_intact(const Cmp& c, bool desc) {
        const Rec lo = Tr<Rec>::make(1, 0, 0), hi = Tr<Rec>::make(2, 0, 0);
        return desc ? c(hi, lo) && !c(lo, hi) : c(lo, hi) && !c(hi, lo);
    }
};
ApiResult run_api_f2(const ApiCase& c) { return run_form_both<ApiForm2>(c); }
} // namespace c07
