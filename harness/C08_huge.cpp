// C08 — scale class "huge": targets partition_huge / selection_huge.
//
// The property quantifies over EVERY tuple of non-empty sorted sequences and every rank 0..N; the routines keep all
// positions in the iterators' 64-bit difference_type precisely so that totals beyond 2^31 / 2^32 work.  The other C08
// targets stop at N ~ 10^5.  This file samples the size dimension around and beyond the integer-width thresholds:
//
//   N~2^16, N~2^24, N~2^31, N~2^32   total size just below / exactly / just above / well above the threshold
//   beyond                            N uniformly in [2^31, 2^31 + 2^33)
//   nmax-edge                         one sequence of 2^j-1, 2^j, 2^j+1 elements (j = 16, 24, 31, 32, 33) next to others
//   many-seqs                         m = 65535..70000 sequences of 1..3 elements (sequence INDEX crosses 2^16)
//
// without touching gigabytes: elements are one byte (a 2-byte record in one configuration) and a long sequence is an
// anonymous mmap(PROT_READ|PROT_WRITE, MAP_PRIVATE|MAP_ANONYMOUS|MAP_NORESERVE) of zero pages of which only a short
// head (keys ordered before the zero key) and a short tail (keys ordered after it) are written.  Such a sequence is a
// sorted sequence like any other: head run(s) < one long run of the key whose byte pattern is zero < tail run(s).  The
// routines read O(m log N) elements per call, so the resident set stays at a few pages per sequence.  mmap is used
// directly (not malloc) so that ASan neither poisons nor tracks gigabytes; each mapping has a PROT_NONE guard page on
// both sides and, under ASan, the slack between the last element and the end of its page is poisoned, so reads
// outside a sequence are still caught.  Sequences of <= 64 elements are fully written exact-size heap blocks.
//
// Oracle: the same clauses as everywhere in C08, evaluated directly on the returned split with O(m) element reads and
// the known run structure (class counts per sequence): offsets inside their sequences; left parts hold exactly `rank`
// elements; max(left) <= min(right) from the boundary elements; tie rule on the class cut by the split; and, as the
// safety net, equality with the closed-form split (all classes before the cut class entirely left, the cut class
// filled from sequence 0 upwards).  Selection: value equivalent to the class that contains `rank`, offset == rank -
// (number of elements in earlier classes).
//
// Work budget (DESIGN rule 5): every comparison made by the routines is counted (operator< of the element type for
// the default-comparator configuration, the functor otherwise) and so is every dereference of the sequence iterators
// (a counting random-access iterator class over the element pointer).  One call may use at most
// 100000 + 128 * (m+2) * (log2 m + 2) * (log2(nmax+1) + 2) operations -- measured need of the halving refinement is
// about 50x or more below that -- otherwise the case fails with C08/runaway-operation instead of hanging for minutes.
#include "C08_huge.hpp"

#include <ctime>

namespace c08h {
Budget g_budget;
[[noreturn]] void runaway() {
    uint64_t lim = g_budget.limit;
    g_budget.limit = UINT64_MAX;
    PBT_CHECK(false, "C08/runaway-operation",
              g_budget.what << " at rank " << g_budget.rank << " of N=" << g_budget.N << " (m=" << g_budget.m << ") made more than " << lim
                            << " comparisons + iterator dereferences (work budget, > 32x the need of a correct call)");
    abort();
}
} // namespace c08h

namespace {
using namespace c08h;

uint64_t edge(pbt::Source& src, int j) { return (1ull << j) + (uint64_t)src.range(0, 2) - 1; }

HugeShape gen_huge(pbt::Source& src) {
    HugeShape sh;
    // selectors first
    sh.cfg = (int)src.range(0, 3);
    sh.rsel = (int)src.weighted({3, 2, 2, 1});
    sh.ncls = (int)src.weighted({2, 2, 14, 6, 4, 4, 1}); // many-seqs is the expensive class (O(m log m) per call): 1 in 33
    int delta_sel = (int)src.weighted({3, 3, 2, 1});
    sh.shape = (int)src.weighted({3, 3, 2});
    int mi = (int)src.weighted({1, 3, 3, 2, 2, 1, 1, 1, 2});
    static const int DS[5] = {1, 0, 2, 3, 30};
    sh.D = DS[src.weighted({3, 2, 2, 2, 2})];
    sh.seed = src.bits(4);
    uint64_t s = sh.seed * 0x9E3779B97F4A7C15ull + 1234567;

    std::vector<uint64_t> lens;
    if (sh.ncls == NC_MANY) {
        sh.m = src.boolean() ? 65536 + (int)src.range(2, 4464) : 65535 + (int)src.range(0, 2);
        int maxl = 1 + (int)src.range(0, 2);
        for (int i = 0; i < sh.m; ++i) lens.push_back(1 + splitmix(s) % (uint64_t)maxl);
    } else {
        sh.m = mi < 8 ? 1 + mi : (int)src.range(17, 40);
        if (sh.ncls == NC_NMAX) {
            static const int J[5] = {31, 32, 16, 24, 33};
            int j = J[src.weighted({3, 3, 1, 1, 1})];
            int where = (int)src.index((size_t)sh.m);
            for (int i = 0; i < sh.m; ++i) {
                if (i == where) {
                    lens.push_back(edge(src, j));
                    continue;
                }
                switch (src.weighted({2, 2, 2, 1})) {
                case 0: lens.push_back(1); break;
                case 1: lens.push_back((uint64_t)src.range(1, 40)); break;
                case 2: lens.push_back(edge(src, (int)src.range(10, 30))); break;
                default: lens.push_back(1 + splitmix(s) % P31); break;
                }
            }
        } else {
            uint64_t N;
            if (sh.ncls == NC_BEYOND) {
                N = P31 + src.bits(5) % P33;
            } else {
                const uint64_t B = sh.ncls == NC_16 ? P16 : sh.ncls == NC_24 ? P24 : sh.ncls == NC_31 ? P31 : P32;
                switch (delta_sel) {
                case 0: N = B + (uint64_t)src.range(1, 5000); break;
                case 1: N = B - (uint64_t)src.range(0, 5000); break;
                case 2: N = B + (uint64_t)src.range(5001, 1 << 20); break;
                default: N = B + B / 256 * (uint64_t)src.range(1, 255); break;
                }
            }
            switch (sh.shape) {
            case 0: { // one huge sequence, the others short
                int where = (int)src.index((size_t)sh.m);
                static const int SM[4] = {5, 1, 40, 300};
                uint64_t shortmax = (uint64_t)SM[src.weighted({2, 2, 2, 1})];
                uint64_t rest = 0;
                for (int i = 0; i < sh.m; ++i) {
                    lens.push_back(i == where ? 0 : 1 + splitmix(s) % shortmax);
                    rest += lens.back();
                }
                lens[where] = N - rest; // N >= 2^16 - 5000 > 40 * 300
                break;
            }
            case 1: { // equal parts
                uint64_t q = N / (uint64_t)sh.m, rem = N % (uint64_t)sh.m;
                for (int i = 0; i < sh.m; ++i) lens.push_back(q + ((uint64_t)i < rem ? 1 : 0));
                break;
            }
            default: { // random proportions (every part >= 1: N / sum(w) >= 1)
                std::vector<uint64_t> w;
                uint64_t W = 0;
                for (int i = 0; i < sh.m; ++i) w.push_back(1 + splitmix(s) % 1000), W += w.back();
                uint64_t cw = 0, prev = 0;
                for (int i = 0; i < sh.m; ++i) {
                    cw += w[i];
                    uint64_t c = (uint64_t)((unsigned __int128)N * cw / W);
                    lens.push_back(c - prev);
                    prev = c;
                }
                break;
            }
            }
        }
    }

    const int D = sh.D;
    sh.seqs.resize(sh.m);
    for (int i = 0; i < sh.m; ++i) {
        HSeq& q = sh.seqs[i];
        q.len = lens[i];
        sh.N += q.len;
        sh.nmax = std::max(sh.nmax, q.len);
        if (q.len <= 64) {
            for (uint64_t j = 0; j < q.len; ++j) q.head.push_back((int8_t)((int)(splitmix(s) % (uint64_t)(2 * D + 1)) - D));
            std::sort(q.head.begin(), q.head.end());
            continue;
        }
        auto part = [&]() -> uint64_t {
            switch (splitmix(s) % 8) {
            case 0: case 1: return 0;
            case 2: return 1;
            case 3: case 4: return 1 + splitmix(s) % 4;
            case 5: case 6: return 1 + splitmix(s) % 40;
            default: return 1 + splitmix(s) % 300;
            }
        };
        uint64_t h = part(), t = part();
        if (h + t > q.len) h = 0, t = std::min<uint64_t>(t, q.len);
        for (uint64_t j = 0; j < h; ++j) q.head.push_back((int8_t)(-(int)(splitmix(s) % (uint64_t)(D + 1))));
        for (uint64_t j = 0; j < t; ++j) q.tail.push_back((int8_t)(splitmix(s) % (uint64_t)(D + 1)));
        std::sort(q.head.begin(), q.head.end());
        std::sort(q.tail.begin(), q.tail.end());
        q.zeros = q.len - h - t;
    }
    return sh;
}

std::vector<uint64_t> huge_ranks(const HugeShape& sh, const Model& mo) {
    const uint64_t N = mo.N;
    std::vector<uint64_t> r;
    uint64_t s = sh.seed ^ 0x5DEECE66Dull;
    auto add = [&](uint64_t x, uint64_t w) {
        for (uint64_t d = 0; d <= 2 * w; ++d) {
            uint64_t y = x + d;
            if (y >= w && y - w <= N) r.push_back(y - w);
        }
    };
    std::vector<uint64_t> starts; // ranks where the class changes
    for (int c = 0; c < 64; ++c)
        if (mo.T[c] && mo.P[c] > 0) starts.push_back(mo.P[c]);
    if (sh.ncls == NC_MANY) {
        // a call costs O(m log m) here (about 3 * 10^6 counted operations): at most ~24 ranks
        add(0, 0), add(1, 0), add(N, 0), add(N - 1, 0);
        add(P16, 1), add((uint64_t)sh.m, 1);
        for (int k = 0; k < 3 && !starts.empty(); ++k) add(starts[splitmix(s) % starts.size()], 1);
        for (int k = 0; k < 5; ++k) r.push_back(splitmix(s) % (N + 1));
    } else {
        std::vector<ptrdiff_t> lens, rs;
        for (uint64_t l : mo.lens) lens.push_back((ptrdiff_t)l);
        for (uint64_t b : starts) rs.push_back((ptrdiff_t)b);
        for (ptrdiff_t x : c08::sample_ranks((ptrdiff_t)N, lens, rs, s)) r.push_back((uint64_t)x);
        // integer-width thresholds
        for (uint64_t B : {(uint64_t)1 << 15, P16, P24, P31, P32, P33}) {
            if (B > N + 4) continue;
            add(B, 3);
            if (B == P31 || B == P32) add(B, (uint64_t)sh.m + 1);
            for (int k = 0; k < 6; ++k) {
                uint64_t d = splitmix(s) % 70000;
                add(B + d, 0);
                if (B >= d) add(B - d, 0);
            }
        }
        // uniformly between 2^31 and N, and near N
        for (int k = 0; k < 24 && N > P31; ++k) r.push_back(P31 + splitmix(s) % (N - P31 + 1));
        for (int k = 0; k < 12; ++k) {
            uint64_t d = splitmix(s) % 70000;
            if (d <= N) r.push_back(N - d);
        }
        // tie-rule switch points inside every class present in several sequences: P[c] + prefix sums of its counts
        for (int c = 0; c < 64; ++c) {
            if (!mo.T[c]) continue;
            uint64_t ps = mo.P[c];
            int shown = 0;
            for (int i = 0; i < mo.m && shown < 48; ++i) {
                uint64_t lb, ub;
                mo.bounds(i, c, lb, ub);
                if (ub == lb) continue;
                ps += ub - lb;
                if (c == 32 || shown < 3) add(ps, 1), ++shown;
            }
        }
    }
    std::sort(r.begin(), r.end());
    r.erase(std::unique(r.begin(), r.end()), r.end());
    return r;
}

void run_huge(pbt::Source& src, bool dp, bool ds) {
    const clock_t dev_t0 = clock(); // only reported by the C08_HUGE_STATS development aid
    g_budget = Budget();
    HugeShape sh = gen_huge(src);
    Model mo(sh);
    const uint64_t N = mo.N;
    int rsel = sh.rsel;
    if (rsel == 3 && N > (uint64_t)INT_MAX) rsel = 0; // int can hold every rank 0..N only below 2^31

    static const char* const NCL[] = {"huge:N~2^16", "huge:N~2^24", "huge:N~2^31", "huge:N~2^32", "huge:beyond", "huge:nmax-edge", "huge:many-seqs"};
    pbt::label(NCL[sh.ncls]);
    if (sh.ncls <= NC_BEYOND) pbt::label(sh.shape == 0 ? "shape:one-huge" : sh.shape == 1 ? "shape:equal" : "shape:random-split");
    pbt::label(N < P16 ? "N<2^16" : N < P24 ? "N=2^16..2^24-1" : N < P31 ? "N=2^24..2^31-1" : N == P31 ? "N=2^31" : N < P32 ? "N=2^31+1..2^32-1" : N == P32 ? "N=2^32" : "N>2^32");
    if ((N & (N - 1)) == 0) pbt::label("N_is_pow2");
    pbt::label(sh.nmax < P16 ? "nmax<2^16" : sh.nmax < P24 ? "nmax=2^16..2^24-1" : sh.nmax < P31 ? "nmax=2^24..2^31-1" : sh.nmax < P32 ? "nmax=2^31..2^32-1" : "nmax>=2^32");
    {
        uint64_t x = sh.nmax + 1; // the padded grid is 2^ceil(log2(nmax+1)) - 1: nmax = 2^j-1 / 2^j / 2^j+1 are the edges
        if (sh.nmax >= 1000 && (((x & (x - 1)) == 0) || ((sh.nmax & (sh.nmax - 1)) == 0) || (((sh.nmax - 1) & (sh.nmax - 2)) == 0)))
            pbt::label("nmax_at_pow2_edge");
    }
    int m = sh.m;
    pbt::label(m == 1 ? "m=1" : m == 2 ? "m=2" : m <= 8 ? "m=3..8" : m <= 40 ? "m=17..40" : m < 65536 ? "m=65535" : m == 65536 ? "m=65536" : "m>65536");
    static const char* const CFG[] = {"cfg=byte/default-less", "cfg=byte/greater", "cfg=byte/projection", "cfg=record2/less"};
    pbt::label(CFG[sh.cfg]);
    pbt::label(rsel == 0 ? "rank_t=ptrdiff_t" : rsel == 1 ? "rank_t=size_t" : rsel == 2 ? "rank_t=long long" : "rank_t=int");
    pbt::label(sh.D == 0 ? "keys_all_equal" : sh.D <= 3 ? "keys_few_distinct" : "keys_wide");

    if (pbt::verbose()) {
        PBT_LOG("cfg=" << sh.cfg << " (0 byte/default std::less 1 byte/greater 2 byte/projection floor((k+128)/4) 3 2-byte record/less) rank_t=" << rsel
                       << " (0 ptrdiff_t 1 size_t 2 long long 3 int) class=" << NCL[sh.ncls] << " m=" << m << " N=" << N << " nmax=" << sh.nmax
                       << " key classes -" << sh.D << "..+" << sh.D << "\n");
        auto rle = [](const std::vector<int8_t>& v) {
            std::ostringstream os;
            for (size_t j = 0; j < v.size();) {
                size_t k = j;
                while (k < v.size() && v[k] == v[j]) ++k;
                os << (j ? "," : "") << (int)v[j];
                if (k - j > 1) os << "x" << (k - j);
                j = k;
            }
            return os.str();
        };
        for (int i = 0; i < m && i < 48; ++i) {
            const HSeq& q = sh.seqs[i];
            PBT_LOG("  seq" << i << " len " << q.len << ": classes {" << rle(q.head) << "}");
            if (q.zeros || !q.tail.empty()) PBT_LOG(" + " << q.zeros << " unwritten zero bytes (class 0) + {" << rle(q.tail) << "}");
            PBT_LOG("\n");
        }
        if (m > 48) PBT_LOG("  ... (" << (m - 48) << " more sequences)\n");
    }

    std::vector<uint64_t> ranks = huge_ranks(sh, mo);
    HStats st;
    switch (sh.cfg) {
    case 0: run_hcfg0(sh, mo, ranks, dp, ds, st, rsel); break;
    case 1: run_hcfg1(sh, mo, ranks, dp, ds, st, rsel); break;
    case 2: run_hcfg2(sh, mo, ranks, dp, ds, st, rsel); break;
    default: run_hcfg3(sh, mo, ranks, dp, ds, st, rsel); break;
    }
    if (st.mmap_failed) {
        pbt::label("mmap_failed");
        pbt::inconclusive();
        return;
    }
    PBT_LOG("ranks checked: " << st.ranks_checked << "; most comparisons+dereferences in one call: " << g_budget.max_used << "\n");
    if (const char* e = getenv("C08_HUGE_STATS")) { // development aid: append the budget headroom of every case to the named file
        if (FILE* f = fopen(e, "a")) {
            uint64_t limit = work_limit(m, sh.nmax);
            fprintf(f, "cpu_ms=%ld m=%d nmax=%llu D=%d ranks=%zu max_used=%llu limit=%llu headroom=%.1f\n", (long)((clock() - dev_t0) * 1000 / CLOCKS_PER_SEC), m, (unsigned long long)sh.nmax, sh.D, st.ranks_checked,
                    (unsigned long long)g_budget.max_used, (unsigned long long)limit, (double)limit / (double)std::max<uint64_t>(1, g_budget.max_used));
            fclose(f);
        }
    }
    pbt::label(st.ranks_checked < 100 ? "ranks_checked<100" : st.ranks_checked < 400 ? "ranks_checked=100..399" : st.ranks_checked < 700 ? "ranks_checked=400..699" : "ranks_checked>=700");
    if (st.rank_ge_31) pbt::label("rank>=2^31_checked");
    if (st.rank_ge_32) pbt::label("rank>=2^32_checked");
    if (st.off_ge_31) pbt::label("sel_offset>=2^31");
    if (st.off_ge_32) pbt::label("sel_offset>=2^32");
    if (st.cut_multi) pbt::label("cut_class_in>=2_seqs");
    if (st.cut3) pbt::label("cut_class_in>=3_seqs");
    if (dp) {
        if (m >= 2 && st.cut_multi) pbt::nontrivial();
    } else if (mo.class_in_two_seqs) {
        pbt::label("key_in>=2_seqs");
        pbt::nontrivial();
    }
}

} // namespace

PBT_PROPERTY(partition_huge) { run_huge(src, true, false); }
PBT_PROPERTY(selection_huge) { run_huge(src, false, true); }
