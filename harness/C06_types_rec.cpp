// C06 — heap-owning element type with an atomic live-instance counter and a
// canary (lighter than verif::Tracked: no mutex ledger, so real threads do not
// serialise on it).
//   * every constructor increments Rec::live, the destructor decrements it;
//   * a destructor / read / assignment on storage that does not hold a live Rec
//     (raw or already destroyed) is reported with pbt::fatal;
//   * the key lives in a heap cell, so ASan sees double destroys, reads of
//     destroyed elements and bitwise copies that end in a double free;
//   * a moved-from Rec owns nothing and compares as key -1 (all generated keys
//     are >= 0): an algorithm that kept using a moved-from element would fail
//     the permutation oracle, nothing stricter than the statement is asserted.
#include "C06_run.hpp"

#include <atomic>
#include <cstdint>

namespace c06 {

namespace {

class Rec {
public:
    static std::atomic<long> live, constructed;
    static const uint32_t ALIVE = 0xA11FE5EDu, DEAD = 0xDEADDEADu;

    Rec() : p_(new int(0)), tag_(0), canary_(ALIVE) { born(); }
    Rec(int k, int t) : p_(new int(k)), tag_(t), canary_(ALIVE) { born(); }
    Rec(const Rec& o) : p_(nullptr), tag_(o.tag_), canary_(ALIVE) {
        o.check("copy-construct from");
        if (o.p_) p_ = new int(*o.p_);
        born();
    }
    Rec(Rec&& o) noexcept : p_(o.p_), tag_(o.tag_), canary_(ALIVE) {
        o.check("move-construct from");
        o.p_ = nullptr;
        born();
    }
    Rec& operator=(const Rec& o) {
        check("copy-assign to");
        o.check("copy-assign from");
        if (this != &o) {
            if (!o.p_) {
                delete p_;
                p_ = nullptr;
            } else if (p_) *p_ = *o.p_;
            else p_ = new int(*o.p_);
            tag_ = o.tag_;
        }
        return *this;
    }
    Rec& operator=(Rec&& o) noexcept {
        check("move-assign to");
        o.check("move-assign from");
        if (this != &o) {
            delete p_;
            p_ = o.p_;
            o.p_ = nullptr;
            tag_ = o.tag_;
        }
        return *this;
    }
    ~Rec() {
        if (canary_ != ALIVE)
            pbt::fatal("C06/destroy-dead", canary_ == DEAD ? "destructor run twice on the same element"
                                                           : "destructor run on storage that never held an element");
        canary_ = DEAD;
        delete p_;
        p_ = nullptr;
        live.fetch_sub(1, std::memory_order_relaxed);
    }
    int key() const {
        check("read of");
        return p_ ? *p_ : -1;
    }
    int tag() const { return tag_; }

private:
    void born() {
        live.fetch_add(1, std::memory_order_relaxed);
        constructed.fetch_add(1, std::memory_order_relaxed);
    }
    void check(const char* what) const {
        if (canary_ != ALIVE)
            pbt::fatal("C06/use-dead-element", std::string(what) + (canary_ == DEAD ? " a destroyed element" : " raw storage that holds no element"));
    }
    int* p_;
    int tag_;
    uint32_t canary_;
};
std::atomic<long> Rec::live(0), Rec::constructed(0);

struct RecCmp {
    bool greater;
    bool operator()(const Rec& a, const Rec& b) const { return greater ? b.key() < a.key() : a.key() < b.key(); }
};
//! what std::less<Rec> (the defaulted comparator of the 2-argument form) uses: order by key only, tags distinguish equivalent elements
inline bool operator<(const Rec& a, const Rec& b) { return a.key() < b.key(); }
inline bool operator>(const Rec& a, const Rec& b) { return a.key() > b.key(); }

template <class Sort>
Lifetime sort_rec_with(std::vector<Item>& items, Sort sort) {
    Rec::live.store(0);
    Rec::constructed.store(0);
    Lifetime lt;
    {
        std::vector<Rec> v;
        v.reserve(items.size());
        for (const Item& it : items) v.emplace_back(it.key, it.tag);
        lt.live_before = Rec::live.load();
        long c0 = Rec::constructed.load();
        sort(v);
        lt.live_after = Rec::live.load();
        lt.copies = Rec::constructed.load() - c0;
        for (size_t i = 0; i < items.size(); ++i) items[i] = Item{v[i].key(), v[i].tag()};
    }
    lt.live_end = Rec::live.load();
    return lt;
}

} // namespace

Lifetime sort_rec(const Params& p, std::vector<Item>& items) {
    return sort_rec_with(items, [&](std::vector<Rec>& v) { run_tlx(p, v, RecCmp{p.greater}); });
}

Lifetime sort_rec_less(const Params& p, std::vector<Item>& items) {
    return sort_rec_with(items, [&](std::vector<Rec>& v) {
        if (p.nargs == 2) run_tlx_default_comparator(p, v.begin(), v.end());
        else if (p.greater) pbt::fail("C06/harness", "std::less is ascending");
        else run_tlx(p, v, std::less<Rec>());
    });
}

} // namespace c06
