// pbt.hpp — choice-sequence property engine ("bytes -> case").
//
// A property is   void prop(pbt::Source& src);
// It draws every random decision from `src` and reports a violation by
// throwing pbt::Failure (PBT_CHECK / pbt::fail) or, from a non-main thread or a
// place where unwinding is impossible, by calling pbt::fatal().
//
// The same function is driven by the seeded random driver (engine/driver.cpp),
// by libFuzzer (-DPBT_FUZZER) and by the replay command.
#pragma once
#include <cstdint>
#include <cstdio>
#include <cstdlib>
#include <cstring>
#include <map>
#include <sstream>
#include <string>
#include <vector>

namespace pbt {

struct Failure {
    std::string label; // stable identifier of the oracle that failed
    std::string msg;   // human readable detail
};

//! cursor over a finite byte buffer; past the end everything reads as zero
class Source {
public:
    Source(const uint8_t* d, size_t n) : d_(d), n_(n) {}

    bool exhausted() const { return pos_ >= n_; }
    size_t consumed() const { return pos_ < n_ ? pos_ : n_; }
    size_t size() const { return n_; }

    uint8_t u8() {
        uint8_t v = pos_ < n_ ? d_[pos_] : 0;
        ++pos_;
        return v;
    }
    uint64_t bits(unsigned nbytes) {
        uint64_t v = 0;
        for (unsigned i = 0; i < nbytes; ++i) v = (v << 8) | u8();
        return v;
    }
    //! integer in [lo, hi] (inclusive); zero bytes give lo
    int64_t range(int64_t lo, int64_t hi) {
        if (hi <= lo) return lo;
        uint64_t n = (uint64_t)hi - (uint64_t)lo; // count-1
        uint64_t r;
        if (n < 256) r = bits(1);
        else if (n < 65536) r = bits(2);
        else if (n < (1ull << 32)) r = bits(4);
        else r = bits(8);
        if (n != UINT64_MAX) r %= (n + 1);
        return (int64_t)((uint64_t)lo + r);
    }
    size_t index(size_t n) { return n <= 1 ? 0 : (size_t)range(0, (int64_t)n - 1); }
    //! true with probability num/256 (zero byte -> false)
    bool chance(unsigned num256) { return (unsigned)(255 - u8()) < num256 ? true : false; }
    bool boolean() { return u8() & 1; }
    //! pick index according to integer weights (zero byte -> first non-zero weight)
    size_t weighted(std::initializer_list<unsigned> w) {
        unsigned tot = 0;
        for (unsigned x : w) tot += x;
        unsigned r = (unsigned)range(0, (int64_t)tot - 1);
        size_t i = 0;
        for (unsigned x : w) {
            if (r < x) return i;
            r -= x;
            ++i;
        }
        return w.size() - 1;
    }
    template <class T>
    const T& pick(const std::vector<T>& v) { return v[index(v.size())]; }
    //! "one more?" decision for open-ended loops: false once the buffer is used up
    bool more() { return !exhausted() && u8() != 0; }

private:
    const uint8_t* d_;
    size_t n_;
    size_t pos_ = 0;
};

//! per-case context (labels, non-triviality, verbose description)
struct Context {
    bool verbose = false;
    bool nontrivial = false;
    bool inconclusive = false;
    uint64_t inner = 0;              // evaluations performed inside this case (exhaustive chunks)
    FILE* live = nullptr;            // replay: stream the description as it is produced
    std::vector<const char*> labels; // static strings only
    std::ostringstream desc;
    void flush_live() {
        if (!live) return;
        std::string s = desc.str();
        fwrite(s.data(), 1, s.size(), live);
        fflush(live);
        desc.str(std::string());
    }
    void reset(bool v) {
        verbose = v;
        nontrivial = false;
        inconclusive = false;
        inner = 0;
        labels.clear();
        desc.str(std::string());
        desc.clear();
    }
};
inline Context& ctx() {
    static Context c;
    return c;
}
inline bool verbose() { return ctx().verbose; }
inline void label(const char* l) {
    auto& v = ctx().labels;
    for (const char* x : v)
        if (x == l || strcmp(x, l) == 0) return;
    v.push_back(l);
}
inline void nontrivial() { ctx().nontrivial = true; }
//! a case that enumerates a slice of a domain reports how many individual evaluations it made
inline void count(uint64_t n) { ctx().inner += n; }
//! the case could not be decided (step bound, precondition not constructible)
inline void inconclusive() { ctx().inconclusive = true; }

//! true if the known-findings file asks generators to avoid shape `key`
//! (run.py passes PBT_EXCLUDE=key1,key2 for findings with status "known")
inline bool excluded(const char* key) {
    static const char* env = getenv("PBT_EXCLUDE");
    if (!env || !*env) return false;
    size_t kl = strlen(key);
    for (const char* p = env; (p = strstr(p, key)) != nullptr; p += kl)
        if ((p == env || p[-1] == ',') && (p[kl] == 0 || p[kl] == ',')) return true;
    return false;
}

#define PBT_LOG(expr)                                     \
    do {                                                  \
        if (::pbt::ctx().verbose) { ::pbt::ctx().desc << expr; ::pbt::ctx().flush_live(); } \
    } while (0)

[[noreturn]] inline void fail(const std::string& label, const std::string& msg) {
    throw Failure{label, msg};
}
//! report a failure without unwinding (other threads, noexcept contexts,
//! scheduler deadlock). Implemented by the driver: records label/msg in the
//! shared slot and _exit()s the worker.
[[noreturn]] void fatal(const char* label, const std::string& msg);

//! end the current case from any thread without unwinding: the case is counted
//! as inconclusive (abandon_case) or as passed (finish_case_early). The worker
//! process exits and the driver starts a fresh one at the next case.
[[noreturn]] void abandon_case(const char* why);
[[noreturn]] void finish_case_early();

#define PBT_CHECK(cond, lab, msgexpr)                     \
    do {                                                  \
        if (!(cond)) {                                    \
            ::std::ostringstream pbt_os_;                 \
            pbt_os_ << msgexpr;                           \
            ::pbt::fail(lab, pbt_os_.str());              \
        }                                                 \
    } while (0)

typedef void (*PropertyFn)(Source&);
struct Target {
    const char* name;
    PropertyFn fn;
    Target* next;
};
inline Target*& registry() {
    static Target* head = nullptr;
    return head;
}
struct Registrar {
    Registrar(Target* t) {
        t->next = registry();
        registry() = t;
    }
};
#define PBT_PROPERTY(NAME)                                               \
    static void pbt_prop_##NAME(::pbt::Source& src);                     \
    static ::pbt::Target pbt_target_##NAME = {#NAME, &pbt_prop_##NAME, nullptr}; \
    static ::pbt::Registrar pbt_reg_##NAME(&pbt_target_##NAME);          \
    static void pbt_prop_##NAME(::pbt::Source& src)

// small helpers for descriptions
inline std::string show_bytes(const void* p, size_t n) {
    static const char* hx = "0123456789abcdef";
    const unsigned char* b = (const unsigned char*)p;
    std::string s = "\"";
    for (size_t i = 0; i < n; ++i) {
        unsigned char c = b[i];
        if (c >= 0x20 && c < 0x7f && c != '"' && c != '\\') s += (char)c;
        else {
            s += "\\x";
            s += hx[c >> 4];
            s += hx[c & 15];
        }
    }
    return s + "\"";
}
inline std::string show_bytes(const std::string& s) { return show_bytes(s.data(), s.size()); }

} // namespace pbt
