// shim_hw.hpp — thin force-included shim for the REAL-thread tiers (ASan / TSan):
// only std::thread::hardware_concurrency() (a generated parameter: taskset does not change it
// in this image) and, optionally, the seed of PS5's sampling RNG are replaced inside namespace tlx.
#pragma once
#include <atomic>
#include <condition_variable>
#include <mutex>
#include <random>
#include <thread>

namespace tlx {
namespace std {
using namespace ::std;
class thread : public ::std::thread {
public:
    using ::std::thread::thread;
    thread() noexcept = default;
    thread(thread&&) noexcept = default;
    thread& operator=(thread&&) noexcept = default;
    static unsigned& hw() {
        static unsigned v = 2;
        return v;
    }
    static unsigned hardware_concurrency() noexcept { return hw(); }
};
#ifdef VSCHED_SHIM_MINSTD
struct minstd_rand : ::std::minstd_rand {
    static unsigned& forced_seed() {
        static unsigned s = 1;
        return s;
    }
    minstd_rand() : ::std::minstd_rand(forced_seed()) {}
    template <class X>
    explicit minstd_rand(X) : ::std::minstd_rand(forced_seed()) {}
};
#endif
} // namespace std
} // namespace tlx
