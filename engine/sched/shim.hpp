// shim.hpp — force-included (-include) into every TU that contains tlx code
// which must run under the deterministic scheduler. Inside `namespace tlx`,
// the nested-name-specifier `std::` finds tlx::std first; qualified lookup of
// mutex/condition_variable/thread/atomic there finds these aliases, everything
// else falls through the using-directive to ::std. No tlx source line changes.
#pragma once
#include "vsched.hpp"

#include <random>

namespace tlx {
namespace std {
using namespace ::std;
using mutex = ::vsched::Mutex;
using condition_variable = ::vsched::CondVar;
using thread = ::vsched::Thread;
template <class T>
using atomic = ::vsched::Atomic<T>;
inline void atomic_thread_fence(::std::memory_order) noexcept { ::vsched::S().point("fence"); }
namespace this_thread {
using namespace ::std::this_thread;
inline void yield() noexcept { ::vsched::S().yield_point("yield"); }
} // namespace this_thread

#ifdef VSCHED_SHIM_MINSTD
//! PS5 seeds its sampling RNG from a heap address; make the seed a generated parameter instead
struct minstd_rand : ::std::minstd_rand {
    static unsigned& forced_seed() {
        static unsigned s = 1;
        return s;
    }
    minstd_rand() : ::std::minstd_rand(forced_seed()) {}
    template <class X>
    explicit minstd_rand(X) : ::std::minstd_rand(forced_seed()) {}
};
#endif
} // namespace std
} // namespace tlx
