// vsched.hpp — deterministic thread scheduler driven by a pbt::Source.
//
// Every logical thread runs on a real OS thread, but exactly one runs at a time
// (baton passing). Every visible operation (mutex lock/unlock, condition
// variable wait/notify, atomic access, fence, thread create/join/exit, yield)
// is a scheduling point at which the next thread to run is drawn from the
// Source. A state with no runnable thread while some thread is unfinished is a
// deadlock: a finite, replayable failure (or, if the harness installed a
// handler, a state the harness inspects).
//
// Memory model: sequential consistency at scheduling-point granularity.
#pragma once
#include "../pbt.hpp"

#include <atomic>
#include <condition_variable>
#include <cstdint>
#include <functional>
#include <memory>
#include <mutex>
#include <semaphore.h>
#include <thread>
#include <vector>

namespace vsched {

enum class St { Runnable, BlockedMutex, BlockedCv, BlockedJoin, Finished };

class CondVar;

struct LThread {
    int id = 0;
    St st = St::Runnable;
    const void* waiting_on = nullptr;
    CondVar* cv = nullptr;
    bool yielded = false; // spinning: do not reschedule before somebody else made a step
    bool last_was_load = false;
    const void* last_load_addr = nullptr;
    unsigned long long last_load_val = 0;
    unsigned spin_count = 0; // consecutive spin iterations (re-reads of an unchanged atomic / yields) since the last real step
    const char* note = ""; // harness annotation: what the thread is doing (deadlock report / oracle)
    long note_a = 0, note_b = 0;
    ::std::thread os;
    sem_t sem;
    LThread() { sem_init(&sem, 0, 0); }
    ~LThread() { sem_destroy(&sem); }
};

struct Options {
    uint64_t max_steps = 200000;
    bool spurious_wakeups = false;
    unsigned stay_bias = 160; // choice byte < stay_bias keeps the current thread running
    //! report a livelock when all runnable threads only re-read unchanged atomics / yield for this many
    //! consecutive rounds (0 = never; code that polls an atomic while doing thread-local work needs 0)
    unsigned livelock_rounds = 64;
    //! additional scheduling point after mutex unlock and after atomic stores / read-modify-writes
    bool post_release_points = true;
    //! SPIN BURSTS: normally a thread that re-reads an unchanged atomic (or yields) gives way until somebody else made a
    //! step, so a spin loop never iterates more than a few times. With spin_burst = B a spinning thread first runs B
    //! iterations back to back (no scheduling point, no choice consumed) and only then starts to give way: code paths
    //! that a spin loop takes after N rounds ("spin a while, then yield / sleep / re-read") become reachable, with a
    //! scheduling point exactly where the burst ends. 0 = off (the default; existing schedules are unchanged).
    unsigned spin_burst = 0;
};

class Scheduler {
public:
    ::std::vector<::std::unique_ptr<LThread>> threads;
    int current = 0;
    pbt::Source* src = nullptr;
    Options opt;
    bool active = false;
    uint64_t steps = 0, switches = 0, preemptions = 0;
    unsigned spin_rounds = 0;
    unsigned max_threads_seen = 0;
    //! called (on the thread that blocked last) when no thread is runnable. Return normally is
    //! not possible: the handler must end the case (pbt::fatal / pbt::finish_case_early).
    ::std::function<void()> deadlock_handler;
    //! if set, every scheduling decision is delegated: choose(number of options, first option is
    //! "stay on the current thread" and all others cost one preemption). Used by the bounded-exhaustive
    //! explorer (engine/sched/explore.hpp) instead of the choice bytes.
    ::std::function<unsigned(unsigned, bool)> chooser;
    //! harness hook: called when a thread releases a mutex through unlock() (not through a
    //! condition-variable wait), i.e. at the end of a completed critical section, with the
    //! releasing thread's id. Gives model-based oracles the exact linearisation order.
    ::std::function<void(const void*, int)> unlock_hook;

    static Scheduler& get() {
        static Scheduler s;
        return s;
    }

    void begin(pbt::Source* s, const Options& o = Options()) {
        threads.clear();
        src = s;
        opt = o;
        steps = switches = preemptions = 0;
        spin_rounds = 0;
        max_threads_seen = 1;
        deadlock_handler = nullptr;
        unlock_hook = nullptr;
        chooser = nullptr;
        auto t = ::std::make_unique<LThread>();
        t->id = 0;
        threads.push_back(::std::move(t));
        current = 0;
        active = true;
    }
    void end() {
        if (!active) return;
        for (auto& t : threads)
            if (t->id != 0 && (t->st != St::Finished || t->os.joinable()))
                pbt::fatal("harness/unjoined-thread", "scheduler run ended with an unfinished or unjoined logical thread");
        active = false;
        threads.clear();
    }

    LThread& cur() { return *threads[current]; }

    ::std::string describe() {
        ::std::ostringstream os;
        static const char* names[] = {"runnable", "blocked-on-mutex", "blocked-on-condvar", "blocked-in-join", "finished"};
        for (auto& t : threads) {
            os << " T" << t->id << ":" << names[(int)t->st];
            if (t->note[0]) os << "[" << t->note << " " << t->note_a << "," << t->note_b << "]";
        }
        return os.str();
    }

    //! choose the next thread to run and hand the baton over. Called by the running thread.
    void reschedule(const char* op) {
        if (++steps > opt.max_steps) pbt::abandon_case("scheduler step bound exceeded");
        if (opt.spurious_wakeups) maybe_spurious();
        static thread_local int en[2048];
        unsigned n = 0;
        bool me_enabled = false, any_fresh = false;
        for (auto& t : threads)
            if (t->st == St::Runnable && !t->yielded) any_fresh = true;
        for (auto& t : threads)
            if (t->st == St::Runnable && (!any_fresh || !t->yielded) && n < 2048) {
                en[n++] = t->id;
                if (t->id == current) me_enabled = true;
            }
        if (!any_fresh && n > 0) {
            // every runnable thread is spinning (re-reading an unchanged location / yielding). If this
            // repeats with no real step in between, no thread can ever change the state: livelock.
            for (auto& t : threads) t->yielded = false;
            if (opt.livelock_rounds && ++spin_rounds > opt.livelock_rounds) {
                if (deadlock_handler) deadlock_handler();
                pbt::fatal("livelock", "all runnable threads spin without progress:" + describe());
            }
        }
        if (n == 0) {
            if (deadlock_handler) deadlock_handler();
            pbt::fatal("deadlock", "no runnable thread:" + describe());
        }
        int next;
        if (n == 1) next = en[0];
        else {
            // options: [stay on the current thread (if it is enabled)] + the other enabled threads in id order
            unsigned nopts = n; // me_enabled: 1 + (n-1) others; otherwise n others
            unsigned k;         // chosen option
            if (chooser) k = chooser(nopts, me_enabled);
            else {
                unsigned r = src->u8();
                if (me_enabled) k = r < opt.stay_bias ? 0 : 1 + (r - opt.stay_bias) % (n - 1);
                else k = r % n;
            }
            if (me_enabled && k == 0) next = current;
            else {
                unsigned want = me_enabled ? k - 1 : k, j = 0;
                next = en[0];
                for (unsigned i = 0; i < n; ++i) {
                    if (me_enabled && en[i] == current) continue;
                    if (j++ == want) {
                        next = en[i];
                        break;
                    }
                }
                if (me_enabled) ++preemptions;
            }
        }
        if (next != current) {
            ++switches;
            PBT_LOG("  [T" << current << " " << op << " -> T" << next << "]\n");
            LThread& self = *threads[current];
            current = next;
            sem_post(&threads[next]->sem);
            if (self.st != St::Finished) wait_baton(self);
        }
    }

    static void wait_baton(LThread& t) {
        while (sem_wait(&t.sem) != 0) {}
    }

    void point(const char* op) {
        if (!active) return;
        LThread& me = cur();
        me.yielded = false;
        me.last_was_load = false;
        me.spin_count = 0;
        spin_rounds = 0;
        // somebody made a real step: spinning threads may look again
        for (auto& t : threads)
            if (t.get() != &me) t->yielded = false;
        reschedule(op);
    }
    void yield_point(const char* op) {
        if (!active) return;
        LThread& me = cur();
        if (opt.spin_burst && me.spin_count < opt.spin_burst) { // burst: keep spinning without giving way
            ++me.spin_count;
            return;
        }
        me.yielded = true;
        reschedule(op);
    }
    void block(St st, const void* on, const char* op) {
        LThread& t = cur();
        t.st = st;
        t.waiting_on = on;
        for (auto& u : threads)
            if (u.get() != &t) u->yielded = false;
        reschedule(op);
    }
    void make_runnable(LThread& t) {
        t.st = St::Runnable;
        t.waiting_on = nullptr;
        t.cv = nullptr;
    }
    void maybe_spurious();
};

inline Scheduler& S() { return Scheduler::get(); }

//! annotate what the current logical thread is about to do (used by deadlock oracles)
inline void note(const char* what, long a = 0, long b = 0) {
    if (!S().active) return;
    LThread& t = S().cur();
    t.note = what;
    t.note_a = a;
    t.note_b = b;
}

//! harness instrumentation that touches state shared between logical threads is a shared
//! operation like any other: it needs a scheduling point in front of it, otherwise no other
//! thread can ever be observed between the preceding tlx operation and the observation.
inline void obs(const char* what = "observe") { S().point(what); }

//! RAII: run a scenario under the scheduler
struct Run {
    Run(pbt::Source& src, const Options& o = Options()) { S().begin(&src, o); }
    ~Run() { S().end(); }
};

class Mutex {
    int owner_ = -1;
    friend class CondVar;
    void release_nopoint() {
        auto& s = S();
        owner_ = -1;
        for (auto& t : s.threads)
            if (t->st == St::BlockedMutex && t->waiting_on == this) s.make_runnable(*t);
    }

public:
    Mutex() = default;
    Mutex(const Mutex&) = delete;
    Mutex& operator=(const Mutex&) = delete;
    void lock() {
        auto& s = S();
        if (!s.active) return;
        s.point("lock");
        while (owner_ != -1) {
            if (owner_ == s.current) pbt::fatal("deadlock/self-lock", "thread locks a mutex it already owns");
            s.block(St::BlockedMutex, this, "lock(blocked)");
        }
        owner_ = s.current;
    }
    bool try_lock() {
        auto& s = S();
        if (!s.active) return true;
        s.point("try_lock");
        if (owner_ != -1) return false;
        owner_ = s.current;
        return true;
    }
    void unlock() {
        auto& s = S();
        if (!s.active) return;
        s.point("unlock"); // every shared operation has its scheduling point BEFORE it takes effect
        if (s.unlock_hook) s.unlock_hook(this, s.current);
        release_nopoint();
        // ... and release-type operations get a second point AFTER them: the thread's following
        // plain (uninstrumented) accesses must be interleavable with what the release enabled
        // (e.g. a job enqueued under the lock that frees the object the enqueuer still reads).
        if (s.opt.post_release_points) s.point("unlock(done)");
    }
    int owner() const { return owner_; }
};

class CondVar {
    ::std::vector<int> waiters_;
    friend class Scheduler;

public:
    CondVar() = default;
    CondVar(const CondVar&) = delete;
    CondVar& operator=(const CondVar&) = delete;
    size_t waiter_count() const { return waiters_.size(); }
    template <class Lock>
    void wait(Lock& lk) {
        auto& s = S();
        if (!s.active) return;
        Mutex* m = lk.mutex();
        // a preemption between the caller's predicate check and the enqueue must be explorable
        // (lost wake-ups by notifiers that do not hold the mutex)
        s.point("cv.wait(enter)");
        waiters_.push_back(s.current);
        s.cur().cv = this;
        m->release_nopoint(); // atomically: enqueue + release + block
        s.block(St::BlockedCv, this, "cv.wait");
        m->lock();
    }
    template <class Lock, class P>
    void wait(Lock& lk, P pred) {
        while (!pred()) wait(lk);
    }
    void notify_one() noexcept {
        auto& s = S();
        if (!s.active) return;
        s.point("notify_one");
        if (!waiters_.empty()) {
            size_t i = waiters_.size() <= 1 ? 0 : s.chooser ? s.chooser((unsigned)waiters_.size(), false) : s.src->index(waiters_.size());
            int w = waiters_[i];
            waiters_.erase(waiters_.begin() + (long)i);
            s.make_runnable(*s.threads[w]);
        }
    }
    void notify_all() noexcept {
        auto& s = S();
        if (!s.active) return;
        s.point("notify_all");
        for (int w : waiters_) s.make_runnable(*s.threads[w]);
        waiters_.clear();
    }
};

inline void Scheduler::maybe_spurious() {
    // rarely wake one condition-variable waiter without a notification
    bool any = false;
    for (auto& t : threads)
        if (t->st == St::BlockedCv) any = true;
    if (!any) return;
    if (src->u8() < 240) return;
    for (auto& t : threads)
        if (t->st == St::BlockedCv && t->cv) {
            auto& w = t->cv->waiters_;
            for (size_t i = 0; i < w.size(); ++i)
                if (w[i] == t->id) {
                    w.erase(w.begin() + (long)i);
                    break;
                }
            PBT_LOG("  [spurious wake-up of T" << t->id << "]\n");
            make_runnable(*t);
            return;
        }
}

class Thread {
    int lid_ = -1;

public:
    using id = ::std::thread::id;
    using native_handle_type = ::std::thread::native_handle_type;
    Thread() noexcept = default;
    Thread(Thread&& o) noexcept : lid_(o.lid_) { o.lid_ = -1; }
    Thread& operator=(Thread&& o) noexcept {
        if (lid_ != -1) ::std::terminate();
        lid_ = o.lid_;
        o.lid_ = -1;
        return *this;
    }
    Thread(const Thread&) = delete;
    template <class F, class... A, class = typename ::std::enable_if<!::std::is_same<typename ::std::decay<F>::type, Thread>::value>::type>
    explicit Thread(F&& f, A&&... a) {
        auto& s = S();
        if (!s.active) pbt::fatal("harness/thread-outside-run", "tlx created a thread outside a scheduler run");
        auto fn = ::std::bind(::std::forward<F>(f), ::std::forward<A>(a)...);
        auto fnp = ::std::make_shared<decltype(fn)>(::std::move(fn));
        auto t = ::std::make_unique<LThread>();
        lid_ = t->id = (int)s.threads.size();
        LThread* tp = t.get();
        s.threads.push_back(::std::move(t));
        if (s.threads.size() > s.max_threads_seen) s.max_threads_seen = (unsigned)s.threads.size();
        tp->os = ::std::thread([tp, fnp]() mutable {
            Scheduler::wait_baton(*tp);
            (*fnp)();
            fnp.reset(); // bound arguments are destroyed on the logical thread, before it counts as finished
            auto& s2 = S();
            tp->st = St::Finished;
            for (auto& u : s2.threads)
                if (u->st == St::BlockedJoin && u->waiting_on == tp) s2.make_runnable(*u);
            for (auto& u : s2.threads) u->yielded = false;
            s2.reschedule("exit");
        });
        s.point("spawn");
    }
    ~Thread() {
        if (lid_ != -1) ::std::terminate();
    }
    bool joinable() const noexcept { return lid_ != -1; }
    void join() {
        auto& s = S();
        if (lid_ < 0) throw ::std::system_error(::std::make_error_code(::std::errc::invalid_argument));
        LThread* t = s.threads[(size_t)lid_].get();
        s.point("join");
        while (t->st != St::Finished) s.block(St::BlockedJoin, t, "join(blocked)");
        t->os.join();
        lid_ = -1;
    }
    void swap(Thread& o) noexcept { ::std::swap(lid_, o.lid_); }
    int logical_id() const { return lid_; }
    static unsigned& hw() {
        static unsigned v = 2;
        return v;
    }
    static unsigned hardware_concurrency() noexcept { return hw(); }
};

template <class T>
class Atomic {
    T v_;
    void pre(const char* op) const {
        auto& s = S();
        if (!s.active) return;
        s.cur().last_was_load = false;
        s.point(op);
    }

public:
    Atomic() noexcept = default;
    constexpr Atomic(T x) noexcept : v_(x) {} // NOLINT implicit, like std::atomic
    Atomic(const Atomic&) = delete;
    Atomic& operator=(const Atomic&) = delete;
    T load(::std::memory_order = ::std::memory_order_seq_cst) const noexcept {
        auto& s = S();
        if (!s.active) return v_;
        {
            LThread& t = s.cur();
            unsigned long long cv = (unsigned long long)v_;
            // re-reading the same unchanged location = spinning: give way until somebody else moved
            if (t.last_was_load && t.last_load_addr == (const void*)this && t.last_load_val == cv) s.yield_point("load(spin)");
            else s.point("load");
        }
        LThread& t = s.cur();
        t.last_was_load = true;
        t.last_load_addr = (const void*)this;
        t.last_load_val = (unsigned long long)v_;
        return v_;
    }
    void post(const char* op) const {
        auto& s = S();
        if (s.active && s.opt.post_release_points) s.point(op);
    }
    void store(T x, ::std::memory_order = ::std::memory_order_seq_cst) noexcept {
        pre("store");
        v_ = x;
        post("store(done)");
    }
    T exchange(T x, ::std::memory_order = ::std::memory_order_seq_cst) noexcept {
        pre("exchange");
        T o = v_;
        v_ = x;
        return o;
    }
    bool compare_exchange_strong(T& expected, T desired, ::std::memory_order = ::std::memory_order_seq_cst,
                                 ::std::memory_order = ::std::memory_order_seq_cst) noexcept {
        pre("cas");
        if (v_ == expected) {
            v_ = desired;
            return true;
        }
        expected = v_;
        return false;
    }
    bool compare_exchange_weak(T& e, T d, ::std::memory_order a = ::std::memory_order_seq_cst,
                               ::std::memory_order b = ::std::memory_order_seq_cst) noexcept {
        return compare_exchange_strong(e, d, a, b);
    }
    operator T() const noexcept { return load(); }
    T operator=(T x) noexcept {
        store(x);
        return x;
    }
    T fetch_add(T d, ::std::memory_order = ::std::memory_order_seq_cst) noexcept {
        pre("fetch_add");
        T o = v_;
        v_ = (T)(o + d);
        post("fetch_add(done)");
        return o;
    }
    T fetch_sub(T d, ::std::memory_order = ::std::memory_order_seq_cst) noexcept {
        pre("fetch_sub");
        T o = v_;
        v_ = (T)(o - d);
        post("fetch_sub(done)");
        return o;
    }
    T operator++() noexcept { return (T)(fetch_add(1) + 1); }
    T operator--() noexcept { return (T)(fetch_sub(1) - 1); }
    T operator++(int) noexcept { return fetch_add(1); }
    T operator--(int) noexcept { return fetch_sub(1); }
    T operator+=(T d) noexcept { return (T)(fetch_add(d) + d); }
    T operator-=(T d) noexcept { return (T)(fetch_sub(d) - d); }
    //! harness-only peek without a scheduling point
    T peek() const { return v_; }
};

template <>
class Atomic<bool> {
    bool v_;

public:
    Atomic() noexcept = default;
    constexpr Atomic(bool x) noexcept : v_(x) {} // NOLINT
    Atomic(const Atomic&) = delete;
    Atomic& operator=(const Atomic&) = delete;
    bool load(::std::memory_order = ::std::memory_order_seq_cst) const noexcept {
        auto& s = S();
        if (!s.active) return v_;
        {
            LThread& t = s.cur();
            if (t.last_was_load && t.last_load_addr == (const void*)this && t.last_load_val == (unsigned long long)v_)
                s.yield_point("load(spin)");
            else s.point("load");
        }
        LThread& t = s.cur();
        t.last_was_load = true;
        t.last_load_addr = (const void*)this;
        t.last_load_val = (unsigned long long)v_;
        return v_;
    }
    void store(bool x, ::std::memory_order = ::std::memory_order_seq_cst) noexcept {
        auto& s = S();
        if (s.active) {
            s.cur().last_was_load = false;
            s.point("store");
        }
        v_ = x;
    }
    bool exchange(bool x, ::std::memory_order = ::std::memory_order_seq_cst) noexcept {
        auto& s = S();
        if (s.active) {
            s.cur().last_was_load = false;
            s.point("exchange");
        }
        bool o = v_;
        v_ = x;
        return o;
    }
    operator bool() const noexcept { return load(); }
    bool operator=(bool x) noexcept {
        store(x);
        return x;
    }
    bool peek() const { return v_; }
};

} // namespace vsched
