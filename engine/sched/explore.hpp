// explore.hpp — bounded-exhaustive exploration of the schedules of ONE fixed scenario:
// stateless depth-first search by re-execution over all scheduling decisions, with a bound on
// the number of preemptions (a decision that deschedules a thread which could have continued).
// Forced switches (the current thread blocked/finished) and notify_one waiter choices are free.
#pragma once
#include "vsched.hpp"

#include <functional>
#include <vector>

namespace vsched {

class Explorer {
public:
    struct Step {
        unsigned nopts, choice;
        bool costly; // options > 0 cost one preemption
    };
    unsigned bound;
    uint64_t max_runs;
    uint64_t runs = 0;
    bool complete = false;
    std::vector<Step> trace;
    std::vector<unsigned> prefix;
    size_t pos = 0;

    Explorer(unsigned preemption_bound, uint64_t max_runs_) : bound(preemption_bound), max_runs(max_runs_) {}

    unsigned choose(unsigned nopts, bool costly) {
        unsigned c = pos < prefix.size() ? prefix[pos] : 0;
        if (c >= nopts) pbt::fatal("harness/explorer-divergence", "scenario is not deterministic under replayed choices");
        trace.push_back(Step{nopts, c, costly});
        ++pos;
        return c;
    }

    //! advance to the next schedule; false when the bounded space is exhausted
    bool next() {
        for (size_t i = trace.size(); i-- > 0;) {
            unsigned used = 0;
            for (size_t j = 0; j < i; ++j)
                if (trace[j].costly && trace[j].choice > 0) ++used;
            unsigned c = trace[i].choice + 1;
            if (c < trace[i].nopts && (!trace[i].costly || used + 1 <= bound)) {
                prefix.resize(i + 1);
                for (size_t j = 0; j < i; ++j) prefix[j] = trace[j].choice;
                prefix[i] = c;
                return true;
            }
        }
        return false;
    }

    std::string describe() const {
        std::ostringstream os;
        os << "schedule choices:";
        for (const Step& s : trace) os << " " << s.choice << "/" << s.nopts;
        return os.str();
    }

    //! run `scenario` once per schedule. The scenario must start a vsched::Run on `dummy` itself
    //! and install `hook(*this)` as chooser right after. Returns number of schedules executed.
    template <class Scenario>
    uint64_t explore(Scenario scenario) {
        prefix.clear();
        for (;;) {
            trace.clear();
            pos = 0;
            scenario(*this);
            ++runs;
            if (!next()) {
                complete = true;
                break;
            }
            if (runs >= max_runs) break;
        }
        return runs;
    }
    void install() {
        S().chooser = [this](unsigned n, bool costly) { return this->choose(n, costly); };
    }
};

} // namespace vsched
