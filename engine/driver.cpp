// driver.cpp — seeded random search, crash-safe workers, shrinker, replay,
// and (with -DPBT_FUZZER) the libFuzzer entry point, for pbt.hpp properties.
//
//   bin list
//   bin run    --target T --seed S --cases N [--workers W] [--maxlen L]
//              [--case-timeout SEC] [--time-limit SEC] --outdir D
//   bin replay --target T FILE           (exit 0 pass, 1 fail, 2 inconclusive)
//   bin shrink --target T FILE OUT       (shrink an externally found failure)
//
// `run` writes D/result.json; on a failure also D/fail.case (shrunk bytes).
#include "pbt.hpp"

#include <algorithm>
#include <cerrno>
#include <csignal>
#include <ctime>
#include <fcntl.h>
#include <sched.h>
#include <string>
#include <sys/mman.h>
#include <sys/stat.h>
#include <sys/types.h>
#include <sys/wait.h>
#include <unistd.h>
#include <vector>

namespace {

const size_t MAXLEN = 1 << 16;
const int NLABEL = 96;
const int NSAMPLE = 3;
const size_t SAMPLE_BYTES = 6000;

enum : uint32_t { ST_IDLE = 0, ST_RUNNING = 1, ST_FAILED = 2, ST_DONE = 3 };

struct LabelStat {
    char name[48];
    uint64_t count;
};

struct Slot {
    volatile uint32_t state;
    volatile uint32_t len;
    volatile uint64_t case_no;
    volatile uint64_t start_ms;
    uint64_t evals, nontrivial, inconclusive, nhashes, inner;
    char label[160];
    char msg[6000];
    LabelStat labels[NLABEL];
    int nsamples;
    char samples[NSAMPLE][SAMPLE_BYTES];
    uint8_t buf[MAXLEN];
};

struct Shared {
    volatile int stop;
};

Slot* g_slot = nullptr; // slot of the current process (worker or isolated child)
bool g_is_worker = false;  // search worker (statistics are kept in the slot) vs isolated child
uint64_t* g_hashes = nullptr;
uint64_t g_hash_cap = 0;
pbt::Target* g_target = nullptr;

uint64_t now_ms() {
    timespec ts;
    clock_gettime(CLOCK_MONOTONIC, &ts);
    return (uint64_t)ts.tv_sec * 1000 + ts.tv_nsec / 1000000;
}

uint64_t splitmix(uint64_t& s) {
    uint64_t z = (s += 0x9E3779B97F4A7C15ull);
    z = (z ^ (z >> 30)) * 0xBF58476D1CE4E5B9ull;
    z = (z ^ (z >> 27)) * 0x94D049BB133111EBull;
    return z ^ (z >> 31);
}
uint64_t fnv(const void* p, size_t n, uint64_t h = 1469598103934665603ull) {
    const uint8_t* b = (const uint8_t*)p;
    for (size_t i = 0; i < n; ++i) h = (h ^ b[i]) * 1099511628211ull;
    return h;
}

std::string json_escape(const std::string& s) {
    std::string o;
    char tmp[8];
    for (unsigned char c : s) {
        if (c == '"') o += "\\\"";
        else if (c == '\\') o += "\\\\";
        else if (c == '\n') o += "\\n";
        else if (c == '\t') o += "\\t";
        else if (c < 0x20 || c >= 0x7f) {
            snprintf(tmp, sizeof tmp, "\\u%04x", c);
            o += tmp;
        } else o += (char)c;
    }
    return o;
}

void copy_str(char* dst, size_t cap, const std::string& s) {
    size_t n = std::min(cap - 1, s.size());
    memcpy(dst, s.data(), n);
    dst[n] = 0;
}

//! generate the byte buffer of global case `idx`
size_t gen_case(uint64_t seed, uint64_t tkey, uint64_t idx, uint64_t total, size_t maxlen, uint8_t* out) {
    uint64_t s = seed * 0x2545F4914F6CDD1Dull ^ tkey ^ (idx * 0xD1342543DE82EF95ull);
    splitmix(s);
    double progress = total ? std::min(1.0, (double)(idx + 1) / (0.5 * (double)total)) : 1.0;
    size_t cap = (size_t)(8 + (double)(maxlen - 8) * progress);
    if (cap > maxlen) cap = maxlen;
    uint64_t r = splitmix(s);
    size_t len;
    switch (r & 3) {
    case 0: len = 1 + (r >> 8) % std::min<size_t>(cap, 32); break;
    case 1: len = 1 + (r >> 8) % std::max<size_t>(1, cap / 4); break;
    default: len = 1 + (r >> 8) % cap; break;
    }
    unsigned mode = (unsigned)((r >> 2) & 7); // 0-2 uniform, 3-4 half small, 5 mostly small, 6 runs, 7 small+runs
    uint8_t prev = 0;
    for (size_t i = 0; i < len; ++i) {
        uint64_t x = splitmix(s);
        uint8_t b = (uint8_t)x;
        unsigned sel = (unsigned)(x >> 8) & 15;
        if ((mode == 3 || mode == 4) && sel < 8) b &= 3;
        else if (mode == 5 && sel < 14) b &= 7;
        else if (mode == 6 && sel < 8 && i) b = prev;
        else if (mode == 7) {
            if (sel < 6 && i) b = prev;
            else if (sel < 12) b &= 3;
        }
        out[i] = prev = b;
    }
    return len;
}

enum Verdict { V_PASS = 0, V_FAIL = 1, V_INCONCLUSIVE = 2 };

//! run the property in-process. Returns verdict; fills label/msg on failure.
Verdict run_inproc(const uint8_t* buf, size_t len, bool verbose, std::string* label, std::string* msg,
                   size_t* consumed = nullptr) {
    pbt::ctx().reset(verbose);
    pbt::Source src(buf, len);
    Verdict v = V_PASS;
    try {
        g_target->fn(src);
    } catch (const pbt::Failure& f) {
        if (label) *label = f.label;
        if (msg) *msg = f.msg;
        v = V_FAIL;
    }
    if (consumed) *consumed = src.consumed();
    if (v == V_PASS && pbt::ctx().inconclusive) v = V_INCONCLUSIVE;
    return v;
}

std::string read_file(const std::string& path, size_t max = 1 << 20) {
    std::string s;
    FILE* f = fopen(path.c_str(), "rb");
    if (!f) return s;
    char b[4096];
    size_t n;
    while ((n = fread(b, 1, sizeof b, f)) > 0 && s.size() < max) s.append(b, n);
    fclose(f);
    return s;
}
bool write_file(const std::string& path, const void* p, size_t n) {
    FILE* f = fopen(path.c_str(), "wb");
    if (!f) return false;
    fwrite(p, 1, n, f);
    fclose(f);
    return true;
}

//! derive a stable label from sanitizer output / exit status
std::string crash_label(const std::string& err, int status) {
    size_t p;
    if ((p = err.find("ERROR: AddressSanitizer: ")) != std::string::npos) {
        size_t b = p + 25, e = err.find_first_of(" \n", b);
        return "crash/asan:" + err.substr(b, e - b);
    }
    if ((p = err.find("ERROR: LeakSanitizer")) != std::string::npos) return "crash/lsan:leak";
    if ((p = err.find("WARNING: ThreadSanitizer: ")) != std::string::npos) {
        size_t b = p + 26, e = err.find_first_of("(\n", b);
        std::string k = err.substr(b, e - b);
        while (!k.empty() && k.back() == ' ') k.pop_back();
        for (char& c : k)
            if (c == ' ') c = '-';
        return "crash/tsan:" + k;
    }
    if ((p = err.find("runtime error: ")) != std::string::npos) {
        size_t b = p + 15, e = err.find('\n', b);
        std::string k = err.substr(b, std::min<size_t>(e - b, 60));
        std::string o;
        for (size_t i = 0; i < k.size(); ++i) {
            char c = k[i];
            if (c == '0' && i + 1 < k.size() && k[i + 1] == 'x') { // drop addresses entirely
                i += 2;
                while (i < k.size() && isxdigit((unsigned char)k[i])) ++i;
                --i;
                continue;
            }
            if (c >= '0' && c <= '9') continue;
            o += (c == ' ') ? '-' : c;
        }
        return "crash/ubsan:" + o.substr(0, 40);
    }
    if (err.find("terminate called") != std::string::npos) return "crash/terminate";
    if (err.find("Assertion") != std::string::npos && err.find("failed") != std::string::npos) return "crash/assert";
    char b[64];
    if (WIFSIGNALED(status)) snprintf(b, sizeof b, "crash/signal:%d", WTERMSIG(status));
    else snprintf(b, sizeof b, "crash/exit:%d", WEXITSTATUS(status));
    return b;
}

struct Outcome {
    Verdict v = V_PASS;
    bool hang = false;
    std::string label, msg, desc;
};

Slot* g_iso_slot = nullptr; // slot used by isolated executions
std::string g_tmpdir;

//! run one case in a fresh child process (crash-safe)
Outcome run_isolated(const uint8_t* buf, size_t len, bool verbose, double timeout_s, bool live = false) {
    Outcome o;
    Slot* sl = g_iso_slot;
    sl->state = ST_RUNNING;
    sl->label[0] = sl->msg[0] = 0;
    sl->samples[0][0] = 0;
    std::string errf = g_tmpdir + "/iso.err";
    fflush(stdout);
    fflush(stderr);
    pid_t pid = fork();
    if (pid == 0) {
        g_slot = sl;
        int fd = open(errf.c_str(), O_WRONLY | O_CREAT | O_TRUNC, 0644);
        if (fd >= 0) {
            dup2(fd, 2);
            close(fd);
        }
        std::string label, msg;
        if (live) pbt::ctx().live = stdout;
        pbt::ctx().reset(verbose);
        pbt::Source src(buf, len);
        Verdict v = V_PASS;
        try {
            if (live) pbt::ctx().live = stdout;
            g_target->fn(src);
        } catch (const pbt::Failure& f) {
            copy_str(sl->label, sizeof sl->label, f.label);
            copy_str(sl->msg, sizeof sl->msg, f.msg);
            v = V_FAIL;
        }
        if (v == V_PASS && pbt::ctx().inconclusive) v = V_INCONCLUSIVE;
        if (verbose) copy_str(sl->samples[0], SAMPLE_BYTES, pbt::ctx().desc.str());
        fflush(stdout);
        _exit(v == V_PASS ? 0 : v == V_FAIL ? 10 : 11);
    }
    uint64_t t0 = now_ms();
    int status = 0;
    for (;;) {
        pid_t r = waitpid(pid, &status, WNOHANG);
        if (r == pid) break;
        if ((double)(now_ms() - t0) > timeout_s * 1000.0) {
            kill(pid, SIGKILL);
            waitpid(pid, &status, 0);
            o.hang = true;
            o.v = V_INCONCLUSIVE;
            return o;
        }
        usleep(200);
    }
    o.desc = sl->samples[0];
    if (WIFEXITED(status) && WEXITSTATUS(status) == 0) o.v = V_PASS;
    else if (WIFEXITED(status) && WEXITSTATUS(status) == 11) o.v = V_INCONCLUSIVE;
    else if (WIFEXITED(status) && WEXITSTATUS(status) == 12) o.v = V_PASS;
    else if (WIFEXITED(status) && WEXITSTATUS(status) == 10) {
        o.v = V_FAIL;
        o.label = sl->label;
        o.msg = sl->msg;
    } else {
        o.v = V_FAIL;
        std::string err = read_file(errf, 1 << 16);
        o.label = crash_label(err, status);
        o.msg = err.substr(0, 3000);
    }
    return o;
}

//! byte-level shrinker: keep any candidate that still fails with the same label
std::vector<uint8_t> shrink(std::vector<uint8_t> cur, const std::string& label, double timeout_s, int budget,
                            int* execs_out) {
    int execs = 0;
    auto still_fails = [&](const std::vector<uint8_t>& c) {
        if (execs >= budget) return false;
        ++execs;
        Outcome o = run_isolated(c.data(), c.size(), false, timeout_s);
        return o.v == V_FAIL && o.label == label;
    };
    bool progress = true;
    while (progress && execs < budget) {
        progress = false;
        // 1. truncate tail (binary search on length)
        {
            size_t lo = 0, hi = cur.size();
            while (lo < hi && execs < budget) {
                size_t mid = (lo + hi) / 2;
                std::vector<uint8_t> c(cur.begin(), cur.begin() + mid);
                if (still_fails(c)) hi = mid;
                else lo = mid + 1;
            }
            if (hi < cur.size()) {
                cur.resize(hi);
                progress = true;
            }
        }
        // 2. delete blocks
        for (size_t bs : {64u, 16u, 4u, 2u, 1u}) {
            if (cur.size() < bs) continue;
            for (size_t pos = cur.size() - bs + 1; pos-- > 0 && execs < budget;) {
                if (pos + bs > cur.size()) continue;
                std::vector<uint8_t> c(cur);
                c.erase(c.begin() + pos, c.begin() + pos + bs);
                if (still_fails(c)) {
                    cur.swap(c);
                    progress = true;
                }
            }
        }
        // 3. zero blocks
        for (size_t bs : {16u, 4u}) {
            for (size_t pos = 0; pos + bs <= cur.size() && execs < budget; pos += bs) {
                bool allz = true;
                for (size_t i = 0; i < bs; ++i) allz = allz && cur[pos + i] == 0;
                if (allz) continue;
                std::vector<uint8_t> c(cur);
                std::fill(c.begin() + pos, c.begin() + pos + bs, 0);
                if (still_fails(c)) {
                    cur.swap(c);
                    progress = true;
                }
            }
        }
        // 4. lower single bytes
        for (size_t pos = 0; pos < cur.size() && execs < budget; ++pos) {
            if (cur[pos] == 0) continue;
            std::vector<uint8_t> c(cur);
            c[pos] = 0;
            if (still_fails(c)) {
                cur.swap(c);
                progress = true;
                continue;
            }
            unsigned lo = 1, hi = cur[pos]; // smallest failing value in [lo,hi], assuming monotone
            while (lo < hi && execs < budget) {
                unsigned mid = (lo + hi) / 2;
                c = cur;
                c[pos] = (uint8_t)mid;
                if (still_fails(c)) hi = mid;
                else lo = mid + 1;
            }
            if (hi < cur[pos]) {
                cur[pos] = (uint8_t)hi;
                progress = true;
            }
        }
    }
    if (execs_out) *execs_out = execs;
    return cur;
}

void usage() {
    fprintf(stderr, "usage: bin list | run|replay|shrink --target T ...\n");
    exit(64);
}

pbt::Target* find_target(const std::string& name) {
    for (pbt::Target* t = pbt::registry(); t; t = t->next)
        if (name == t->name) return t;
    if (name.empty() && pbt::registry() && !pbt::registry()->next) return pbt::registry();
    fprintf(stderr, "unknown target '%s'\n", name.c_str());
    exit(64);
}

template <class T>
T* shm_alloc(size_t count = 1) {
    void* p = mmap(nullptr, sizeof(T) * count, PROT_READ | PROT_WRITE, MAP_SHARED | MAP_ANONYMOUS, -1, 0);
    if (p == MAP_FAILED) {
        perror("mmap");
        exit(70);
    }
    return (T*)p;
}

void add_label(Slot* sl, const char* name) {
    for (int i = 0; i < NLABEL; ++i) {
        if (sl->labels[i].name[0] == 0) {
            copy_str(sl->labels[i].name, sizeof sl->labels[i].name, name);
            sl->labels[i].count = 1;
            return;
        }
        if (strncmp(sl->labels[i].name, name, sizeof sl->labels[i].name - 1) == 0) {
            ++sl->labels[i].count;
            return;
        }
    }
}

void add_label(Slot* sl, const char* name);
//! statistics of a case that passed (or was inconclusive), kept in shared memory
void record_case(Slot* sl, Verdict v, size_t consumed) {
    ++sl->evals;
    sl->inner += pbt::ctx().inner;
    if (v == V_INCONCLUSIVE) ++sl->inconclusive;
    for (const char* l : pbt::ctx().labels) add_label(sl, l);
    if (pbt::ctx().nontrivial && v == V_PASS) {
        ++sl->nontrivial;
        size_t n = std::min<size_t>(consumed, sl->len);
        if (sl->nhashes < g_hash_cap) g_hashes[sl->nhashes++] = fnv(sl->buf, n, 1469598103934665603ull);
    }
}

struct RunCfg {
    std::string target, outdir;
    uint64_t seed = 1, cases = 1000;
    int workers = 16;
    size_t maxlen = 256;
    double case_timeout = 20, time_limit = 3600;
    int shrink_budget = 3000;
    bool pin = false;       // pin each worker (and the threads it creates) to one CPU: cheap baton passing
    bool enumerate = false; // case idx = (idx, total) big-endian, for exhaustive sweeps split in chunks
};

void worker_main(const RunCfg& cfg, int w, uint64_t first_case, Slot* sl, uint64_t* hashes, uint64_t hash_cap,
                 Shared* sh) {
    g_slot = sl;
    g_is_worker = true;
    if (cfg.pin) {
        long ncpu = sysconf(_SC_NPROCESSORS_ONLN);
        cpu_set_t set;
        CPU_ZERO(&set);
        CPU_SET((unsigned)(w % (ncpu > 0 ? ncpu : 1)), &set);
        sched_setaffinity(0, sizeof set, &set);
    }
    g_hashes = hashes;
    g_hash_cap = hash_cap;
    std::string errf = cfg.outdir + "/w" + std::to_string(w) + ".err";
    int efd = open(errf.c_str(), O_WRONLY | O_CREAT | O_TRUNC, 0644);
    if (efd >= 0) {
        dup2(efd, 2);
        close(efd);
    }
    uint64_t tkey = fnv(cfg.target.data(), cfg.target.size());
    std::string label, msg;
    for (uint64_t idx = first_case; idx < cfg.cases; idx += cfg.workers) {
        if (sh->stop) break;
        size_t len;
        if (cfg.enumerate) {
            for (int b = 0; b < 8; ++b) {
                sl->buf[b] = (uint8_t)(idx >> (56 - 8 * b));
                sl->buf[8 + b] = (uint8_t)(cfg.cases >> (56 - 8 * b));
            }
            len = 16;
        } else len = gen_case(cfg.seed, tkey, idx, cfg.cases, cfg.maxlen, sl->buf);
        sl->len = (uint32_t)len;
        sl->case_no = idx;
        sl->start_ms = now_ms();
        sl->state = ST_RUNNING;
        ftruncate(2, 0);
        lseek(2, 0, SEEK_SET);
        size_t consumed = 0;
        Verdict v = run_inproc(sl->buf, len, false, &label, &msg, &consumed);
        if (v == V_FAIL) {
            ++sl->evals;
            copy_str(sl->label, sizeof sl->label, label);
            copy_str(sl->msg, sizeof sl->msg, msg);
            sl->state = ST_FAILED;
            _exit(10);
        }
        record_case(sl, v, consumed);
        if (pbt::ctx().nontrivial && v == V_PASS) {
            if (sl->nsamples < NSAMPLE && (sl->nsamples == 0 || (idx / cfg.workers) % 37 == 0)) {
                run_inproc(sl->buf, len, true, nullptr, nullptr);
                copy_str(sl->samples[sl->nsamples++], SAMPLE_BYTES, pbt::ctx().desc.str());
            }
        }
        sl->state = ST_IDLE;
    }
    sl->state = ST_DONE;
    _exit(0);
}

int cmd_run(const RunCfg& cfg) {
    for (size_t i = 1; i <= cfg.outdir.size(); ++i)
        if (i == cfg.outdir.size() || cfg.outdir[i] == '/') mkdir(cfg.outdir.substr(0, i).c_str(), 0755);
    g_tmpdir = cfg.outdir;
    int W = cfg.workers;
    Slot* slots = shm_alloc<Slot>(W);
    g_iso_slot = shm_alloc<Slot>(1);
    Shared* sh = shm_alloc<Shared>(1);
    uint64_t hash_cap = cfg.cases / W + 2;
    uint64_t* hashes = shm_alloc<uint64_t>(hash_cap * W);
    std::vector<pid_t> pids(W, -1);
    uint64_t t0 = now_ms();
    auto spawn = [&](int w, uint64_t first) {
        fflush(stdout);
        pid_t p = fork();
        if (p == 0) worker_main(cfg, w, first, &slots[w], hashes + hash_cap * w, hash_cap, sh);
        pids[w] = p;
    };
    for (int w = 0; w < W; ++w) spawn(w, (uint64_t)w);

    bool have_fail = false, timed_out = false;
    std::vector<uint8_t> fail_buf;
    std::string fail_label, fail_msg;
    uint64_t fail_case = 0, hangs = 0, crashes_total = 0;
    std::vector<std::string> hang_files;
    int live = W;
    uint64_t stop_since = 0;
    while (live > 0) {
        int status;
        pid_t r = waitpid(-1, &status, WNOHANG);
        if (r > 0) {
            int w = -1;
            for (int i = 0; i < W; ++i)
                if (pids[i] == r) w = i;
            if (w < 0) continue;
            pids[w] = -1;
            --live;
            Slot& sl = slots[w];
            bool clean = WIFEXITED(status) && WEXITSTATUS(status) == 0;
            if (WIFEXITED(status) && (WEXITSTATUS(status) == 11 || WEXITSTATUS(status) == 12)) {
                // the case ended itself early (inconclusive / passed): continue with a fresh worker
                uint64_t next = sl.case_no + W;
                sl.state = ST_IDLE;
                if (!sh->stop && next < cfg.cases) {
                    spawn(w, next);
                    ++live;
                }
                continue;
            }
            if (!clean) {
                std::string label, msg;
                if (WIFEXITED(status) && WEXITSTATUS(status) == 10 && sl.state == ST_FAILED) {
                    label = sl.label;
                    msg = sl.msg;
                } else if (WIFSIGNALED(status) && WTERMSIG(status) == SIGKILL && sh->stop) {
                    continue; // killed by us
                } else {
                    std::string err = read_file(cfg.outdir + "/w" + std::to_string(w) + ".err", 1 << 16);
                    label = crash_label(err, status);
                    msg = err.substr(0, 3000);
                    ++crashes_total;
                }
                if (!have_fail) {
                    have_fail = true;
                    fail_buf.assign(sl.buf, sl.buf + sl.len);
                    fail_label = label;
                    fail_msg = msg;
                    fail_case = sl.case_no;
                    sh->stop = 1;
                    stop_since = now_ms();
                }
            }
            continue;
        }
        usleep(5000);
        uint64_t now = now_ms();
        // hung cases
        for (int w = 0; w < W; ++w) {
            if (pids[w] < 0) continue;
            Slot& sl = slots[w];
            uint64_t started = sl.start_ms;
            if (sl.state == ST_RUNNING && now > started && (double)(now - started) > cfg.case_timeout * 1000.0 &&
                sl.start_ms == started) {
                kill(pids[w], SIGKILL);
                int st;
                waitpid(pids[w], &st, 0);
                ++hangs;
                ++sl.inconclusive;
                if (hang_files.size() < 5) {
                    std::string f = cfg.outdir + "/hang-" + std::to_string(sl.case_no) + ".case";
                    write_file(f, sl.buf, sl.len);
                    hang_files.push_back(f);
                }
                uint64_t next = sl.case_no + W;
                sl.state = ST_IDLE;
                if (!sh->stop && next < cfg.cases) spawn(w, next);
                else {
                    pids[w] = -1;
                    --live;
                }
            }
        }
        if (!sh->stop && (double)(now - t0) > cfg.time_limit * 1000.0) {
            timed_out = true;
            sh->stop = 1;
            stop_since = now;
        }
        if (sh->stop && stop_since && now - stop_since > (uint64_t)(cfg.case_timeout * 1000.0) + 2000) {
            for (int w = 0; w < W; ++w)
                if (pids[w] > 0) kill(pids[w], SIGKILL);
        }
    }

    // merge stats
    uint64_t evals = 0, nontrivial = 0, inconcl = 0, inner = 0;
    std::vector<uint64_t> allh;
    std::map<std::string, uint64_t> labels;
    std::vector<std::string> samples;
    for (int w = 0; w < W; ++w) {
        Slot& sl = slots[w];
        evals += sl.evals;
        inner += sl.inner;
        nontrivial += sl.nontrivial;
        inconcl += sl.inconclusive;
        allh.insert(allh.end(), hashes + hash_cap * w, hashes + hash_cap * w + sl.nhashes);
        for (int i = 0; i < NLABEL && sl.labels[i].name[0]; ++i) labels[sl.labels[i].name] += sl.labels[i].count;
        for (int i = 0; i < sl.nsamples && samples.size() < 6; ++i)
            if (w % 4 == 0 || samples.size() < 2) samples.push_back(sl.samples[i]);
    }
    std::sort(allh.begin(), allh.end());
    uint64_t distinct = std::unique(allh.begin(), allh.end()) - allh.begin();

    // failure handling: shrink, then replay 3x
    int shrink_execs = 0, replay_ok = 0;
    std::string fail_desc;
    bool reproducible = false;
    if (have_fail) {
        // first confirm in isolation (also normalises the label)
        Outcome o = run_isolated(fail_buf.data(), fail_buf.size(), false, cfg.case_timeout);
        if (o.v == V_FAIL) {
            fail_label = o.label;
            fail_msg = o.msg;
            if (!cfg.enumerate)
                fail_buf = shrink(fail_buf, fail_label, cfg.case_timeout, cfg.shrink_budget, &shrink_execs);
            for (int i = 0; i < 3; ++i) {
                Outcome r = run_isolated(fail_buf.data(), fail_buf.size(), true, cfg.case_timeout);
                if (r.v == V_FAIL && r.label == fail_label) {
                    ++replay_ok;
                    fail_msg = r.msg;
                    fail_desc = r.desc;
                }
            }
            // a failure must reproduce in all 3 fresh replays; ThreadSanitizer reports depend on the OS
            // schedule of real threads, for them 2 of 3 is required (DESIGN 2.3)
            reproducible = replay_ok == 3 || (replay_ok >= 2 && fail_label.compare(0, 11, "crash/tsan:") == 0);
        }
        write_file(cfg.outdir + "/fail.case", fail_buf.data(), fail_buf.size());
    }

    // result.json
    std::string j = "{\n";
    char tmp[256];
    j += " \"target\": \"" + json_escape(cfg.target) + "\",\n";
    snprintf(tmp, sizeof tmp, " \"seed\": %llu,\n \"cases_requested\": %llu,\n \"evaluations\": %llu,\n",
             (unsigned long long)cfg.seed, (unsigned long long)cfg.cases, (unsigned long long)evals);
    j += tmp;
    snprintf(tmp, sizeof tmp, " \"inner_evaluations\": %llu,\n", (unsigned long long)inner);
    j += tmp;
    snprintf(tmp, sizeof tmp, " \"nontrivial\": %llu,\n \"distinct_nontrivial\": %llu,\n \"inconclusive\": %llu,\n",
             (unsigned long long)nontrivial, (unsigned long long)distinct, (unsigned long long)inconcl);
    j += tmp;
    snprintf(tmp, sizeof tmp, " \"hangs\": %llu,\n \"timed_out\": %s,\n \"wall_s\": %.2f,\n", (unsigned long long)hangs,
             timed_out ? "true" : "false", (double)(now_ms() - t0) / 1000.0);
    j += tmp;
    j += " \"hang_files\": [";
    for (size_t i = 0; i < hang_files.size(); ++i) j += (i ? ", \"" : "\"") + json_escape(hang_files[i]) + "\"";
    j += "],\n \"labels\": {";
    bool first = true;
    for (auto& kv : labels) {
        snprintf(tmp, sizeof tmp, "%s\"%s\": %llu", first ? "" : ", ", json_escape(kv.first).c_str(),
                 (unsigned long long)kv.second);
        j += tmp;
        first = false;
    }
    j += "},\n \"samples\": [";
    for (size_t i = 0; i < samples.size(); ++i) j += (i ? ",\n  \"" : "\n  \"") + json_escape(samples[i]) + "\"";
    j += "],\n";
    if (have_fail) {
        j += " \"failure\": {\"label\": \"" + json_escape(fail_label) + "\", \"msg\": \"" + json_escape(fail_msg) +
             "\", \"desc\": \"" + json_escape(fail_desc) + "\", ";
        snprintf(tmp, sizeof tmp, "\"case_no\": %llu, \"bytes\": %zu, \"shrink_execs\": %d, \"replay_ok\": %d, \"reproducible\": %s, ",
                 (unsigned long long)fail_case, fail_buf.size(), shrink_execs, replay_ok, reproducible ? "true" : "false");
        j += tmp;
        j += "\"file\": \"" + json_escape(cfg.outdir + "/fail.case") + "\"}\n";
    } else j += " \"failure\": null\n";
    j += "}\n";
    write_file(cfg.outdir + "/result.json", j.data(), j.size());
    printf("target=%s evals=%llu nontrivial=%llu distinct=%llu inconclusive=%llu hangs=%llu %s\n", cfg.target.c_str(),
           (unsigned long long)evals, (unsigned long long)nontrivial, (unsigned long long)distinct,
           (unsigned long long)inconcl, (unsigned long long)hangs,
           have_fail ? (reproducible ? ("FAIL " + fail_label).c_str() : ("UNREPRODUCIBLE " + fail_label).c_str()) : "ok");
    return have_fail && reproducible ? 1 : 0;
}

int cmd_replay(const std::string& file, double timeout, bool quiet) {
    std::string data = read_file(file, MAXLEN);
    g_iso_slot = shm_alloc<Slot>(1);
    char tmpl[] = "/tmp/pbt-replay-XXXXXX";
    g_tmpdir = mkdtemp(tmpl);
    if (!quiet) printf("--- case (%zu bytes) target=%s\n", data.size(), g_target->name);
    Outcome o = run_isolated((const uint8_t*)data.data(), data.size(), !quiet, timeout, !quiet);
    unlink((g_tmpdir + "/iso.err").c_str());
    rmdir(g_tmpdir.c_str());
    if (o.hang) {
        printf("\nRESULT hang (inconclusive)\n");
        return 2;
    }
    if (o.v == V_FAIL) {
        printf("\nRESULT FAIL label=%s\n%s\n", o.label.c_str(), o.msg.c_str());
        return 1;
    }
    printf("\nRESULT %s\n", o.v == V_PASS ? "pass" : "inconclusive");
    return o.v == V_PASS ? 0 : 2;
}

int cmd_shrink(const std::string& file, const std::string& out, double timeout, int budget) {
    std::string data = read_file(file, MAXLEN);
    g_iso_slot = shm_alloc<Slot>(1);
    char tmpl[] = "/tmp/pbt-shrink-XXXXXX";
    g_tmpdir = mkdtemp(tmpl);
    std::vector<uint8_t> buf(data.begin(), data.end());
    Outcome o = run_isolated(buf.data(), buf.size(), false, timeout);
    int rc = 0;
    if (o.v != V_FAIL) {
        printf("RESULT pass (nothing to shrink)\n");
    } else {
        int execs = 0;
        buf = shrink(buf, o.label, timeout, budget, &execs);
        int ok = 0;
        for (int i = 0; i < 3; ++i) {
            Outcome r = run_isolated(buf.data(), buf.size(), false, timeout);
            ok += (r.v == V_FAIL && r.label == o.label);
        }
        write_file(out, buf.data(), buf.size());
        printf("RESULT FAIL label=%s bytes=%zu shrink_execs=%d replay_ok=%d\n", o.label.c_str(), buf.size(), execs, ok);
        rc = ok == 3 ? 1 : 0;
    }
    unlink((g_tmpdir + "/iso.err").c_str());
    rmdir(g_tmpdir.c_str());
    return rc;
}

} // namespace

namespace pbt {
[[noreturn]] void fatal(const char* label, const std::string& msg) {
    if (g_slot) {
        copy_str(g_slot->label, sizeof g_slot->label, label);
        copy_str(g_slot->msg, sizeof g_slot->msg, msg);
        if (!g_is_worker && ctx().verbose) copy_str(g_slot->samples[0], SAMPLE_BYTES, ctx().desc.str());
        g_slot->state = ST_FAILED;
        fflush(stdout);
        _exit(10);
    }
    fprintf(stderr, "PBT-FATAL %s: %s\n", label, msg.c_str());
    abort();
}
[[noreturn]] void abandon_case(const char* why) {
    ctx().inconclusive = true;
    if (g_slot && g_is_worker) record_case(g_slot, V_INCONCLUSIVE, 0);
    if (g_slot && ctx().verbose) {
        ctx().desc << "[case abandoned: " << why << "]\n";
        copy_str(g_slot->samples[0], SAMPLE_BYTES, ctx().desc.str());
    }
    fflush(stdout);
    _exit(11);
}
[[noreturn]] void finish_case_early() {
    if (g_slot && g_is_worker) record_case(g_slot, V_PASS, g_slot->len);
    if (g_slot && !g_is_worker && ctx().verbose) copy_str(g_slot->samples[0], SAMPLE_BYTES, ctx().desc.str());
    fflush(stdout);
    _exit(12);
}
} // namespace pbt

#ifdef PBT_FUZZER
extern "C" int LLVMFuzzerTestOneInput(const uint8_t* data, size_t size) {
    if (!g_target) {
        const char* t = getenv("PBT_TARGET");
        g_target = find_target(t ? t : "");
    }
    if (size > MAXLEN) return 0;
    std::string label, msg;
    Verdict v = run_inproc(data, size, false, &label, &msg);
    if (v == V_FAIL) {
        fprintf(stderr, "PBT-FAILURE %s: %s\n", label.c_str(), msg.c_str());
        abort();
    }
    return 0;
}
#else
int main(int argc, char** argv) {
    if (argc < 2) usage();
    std::string cmd = argv[1];
    if (cmd == "list") {
        for (pbt::Target* t = pbt::registry(); t; t = t->next) printf("%s\n", t->name);
        return 0;
    }
    RunCfg cfg;
    std::vector<std::string> pos;
    bool quiet = false;
    for (int i = 2; i < argc; ++i) {
        std::string a = argv[i];
        auto val = [&]() -> std::string {
            if (i + 1 >= argc) usage();
            return argv[++i];
        };
        if (a == "--target") cfg.target = val();
        else if (a == "--seed") cfg.seed = strtoull(val().c_str(), nullptr, 10);
        else if (a == "--cases") cfg.cases = strtoull(val().c_str(), nullptr, 10);
        else if (a == "--workers") cfg.workers = atoi(val().c_str());
        else if (a == "--maxlen") cfg.maxlen = std::min<size_t>(MAXLEN, strtoull(val().c_str(), nullptr, 10));
        else if (a == "--case-timeout") cfg.case_timeout = atof(val().c_str());
        else if (a == "--time-limit") cfg.time_limit = atof(val().c_str());
        else if (a == "--shrink-budget") cfg.shrink_budget = atoi(val().c_str());
        else if (a == "--outdir") cfg.outdir = val();
        else if (a == "--quiet") quiet = true;
        else if (a == "--enumerate") cfg.enumerate = true;
        else if (a == "--pin") cfg.pin = true;
        else pos.push_back(a);
    }
    g_target = find_target(cfg.target);
    cfg.target = g_target->name;
    if (cfg.maxlen < 8) cfg.maxlen = 8;
    if (cfg.workers < 1) cfg.workers = 1;
    if (cmd == "run") {
        if (cfg.outdir.empty()) usage();
        return cmd_run(cfg);
    }
    if (cmd == "replay") {
        if (pos.size() != 1) usage();
        return cmd_replay(pos[0], cfg.case_timeout, quiet);
    }
    if (cmd == "shrink") {
        if (pos.size() != 2) usage();
        return cmd_shrink(pos[0], pos[1], cfg.case_timeout, cfg.shrink_budget);
    }
    usage();
    return 64;
}
#endif
