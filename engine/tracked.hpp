// tracked.hpp — lifetime and allocation instrumentation passed as template
// arguments (no tlx source change):
//   verif::Tracked        element type with a process-wide ledger: every
//                         construction/destruction is checked ("alive iff stored")
//   verif::CountingAllocator<T>  STL allocator that records every allocate /
//                         deallocate (double free, foreign free, size mismatch, leak)
// Violations are reported with pbt::fatal() (no unwinding: destructors and
// deallocate() are noexcept contexts).
#pragma once
#include "pbt.hpp"

#include <atomic>
#include <cstddef>
#include <functional>
#include <memory>
#include <mutex>
#include <unordered_map>

namespace verif {

//! ledger of live Tracked objects (thread-safe: used from parallel sorts too)
struct Ledger {
    std::mutex m;
    std::unordered_map<const void*, int> live; // address -> value at construction
    long constructed = 0, destroyed = 0;
    static Ledger& get() {
        static Ledger l;
        return l;
    }
    void reset() {
        std::lock_guard<std::mutex> g(m);
        live.clear();
        constructed = destroyed = 0;
    }
    size_t live_count() {
        std::lock_guard<std::mutex> g(m);
        return live.size();
    }
    void born(const void* p) {
        std::lock_guard<std::mutex> g(m);
        ++constructed;
        if (!live.emplace(p, 0).second) pbt::fatal("lifetime/construct-over-live", "element constructed on top of a live element");
    }
    void died(const void* p) {
        std::lock_guard<std::mutex> g(m);
        ++destroyed;
        if (live.erase(p) != 1) pbt::fatal("lifetime/destroy-dead", "destructor run on storage that holds no live element");
    }
    void check_live(const void* p, const char* what) {
        std::lock_guard<std::mutex> g(m);
        if (!live.count(p)) pbt::fatal("lifetime/use-dead", std::string(what) + " on storage that holds no live element");
    }
};

//! element with exact lifetime accounting and a heap-owning member (so ASan sees
//! double destroys / leaks / reads of dead elements as well)
class Tracked {
public:
    Tracked() : p_(new int(0)) { Ledger::get().born(this); }
    Tracked(int v) : p_(new int(v)) { Ledger::get().born(this); } // NOLINT implicit
    Tracked(const Tracked& o) : p_(new int(o.value())) { Ledger::get().born(this); }
    //! value left behind in a moved-from element: valid but unspecified for C++, and deliberately a value no
    //! generator produces, so that code which keeps USING a moved-from element (compares it, copies it, stores
    //! it) produces visibly wrong contents instead of silently right ones
    static const int kMovedFrom = -1431655766; // 0xAAAAAAAA
    Tracked(Tracked&& o) noexcept : p_(new int(o.value())) {
        Ledger::get().born(this);
        *o.p_ = kMovedFrom;
    }
    Tracked& operator=(const Tracked& o) {
        Ledger::get().check_live(this, "copy-assign");
        *p_ = o.value();
        return *this;
    }
    Tracked& operator=(Tracked&& o) noexcept {
        Ledger::get().check_live(this, "move-assign");
        if (this != &o) {
            *p_ = o.value();
            *o.p_ = kMovedFrom;
        }
        return *this;
    }
    ~Tracked() {
        Ledger::get().died(this);
        delete p_;
        p_ = nullptr;
    }
    int value() const {
        Ledger::get().check_live(this, "read");
        return *p_;
    }
    friend bool operator<(const Tracked& a, const Tracked& b) { return a.value() < b.value(); }
    friend bool operator>(const Tracked& a, const Tracked& b) { return a.value() > b.value(); }
    friend bool operator==(const Tracked& a, const Tracked& b) { return a.value() == b.value(); }
    friend bool operator!=(const Tracked& a, const Tracked& b) { return a.value() != b.value(); }
    friend std::ostream& operator<<(std::ostream& os, const Tracked& t) { return os << t.value(); }

private:
    int* p_;
};

//! per-case allocation ledger shared by all rebinds of CountingAllocator
struct AllocLedger {
    std::mutex m;
    std::unordered_map<const void*, size_t> live; // address -> bytes
    std::unordered_map<const void*, int> arena_of; // address -> arena (ArenaAllocator only)
    int next_arena = 1;
    long allocs = 0, frees = 0;
    static AllocLedger& get() {
        static AllocLedger l;
        return l;
    }
    void reset() {
        std::lock_guard<std::mutex> g(m);
        live.clear();
        arena_of.clear();
        next_arena = 1;
        allocs = frees = 0;
    }
    size_t live_count() {
        std::lock_guard<std::mutex> g(m);
        return live.size();
    }
};

template <class T>
struct CountingAllocator {
    typedef T value_type;
    typedef T* pointer;
    typedef const T* const_pointer;
    typedef T& reference;
    typedef const T& const_reference;
    typedef std::size_t size_type;
    typedef std::ptrdiff_t difference_type;
    template <class U>
    struct rebind {
        typedef CountingAllocator<U> other;
    };
    CountingAllocator() noexcept {}
    template <class U>
    CountingAllocator(const CountingAllocator<U>&) noexcept {}
    T* allocate(std::size_t n, const void* = nullptr) {
        T* p = static_cast<T*>(::operator new(n * sizeof(T)));
        AllocLedger& l = AllocLedger::get();
        std::lock_guard<std::mutex> g(l.m);
        ++l.allocs;
        l.live[p] = n * sizeof(T);
        return p;
    }
    void deallocate(T* p, std::size_t n) noexcept {
        AllocLedger& l = AllocLedger::get();
        {
            std::lock_guard<std::mutex> g(l.m);
            ++l.frees;
            auto it = l.live.find(p);
            if (it == l.live.end()) pbt::fatal("alloc/free-unknown", "deallocate() of a block that is not live (double or foreign free)");
            if (it->second != n * sizeof(T)) pbt::fatal("alloc/size-mismatch", "deallocate() with a size/type different from allocate()");
            l.live.erase(it);
        }
        ::operator delete(p);
    }
    template <class U, class... A>
    void construct(U* p, A&&... a) { ::new ((void*)p) U(std::forward<A>(a)...); }
    template <class U>
    void destroy(U* p) { p->~U(); }
    size_type max_size() const noexcept { return size_type(-1) / sizeof(T); }
    friend bool operator==(const CountingAllocator&, const CountingAllocator&) { return true; }
    friend bool operator!=(const CountingAllocator&, const CountingAllocator&) { return false; }
};

//! STATEFUL variant: every default-constructed allocator is its own arena (copies and rebinds keep the
//! arena, allocators of different arenas compare unequal); a block must be returned through an allocator
//! of the arena it came from. Containers that take an allocator instance must keep it with their nodes.
template <class T>
struct ArenaAllocator {
    typedef T value_type;
    typedef T* pointer;
    typedef const T* const_pointer;
    typedef T& reference;
    typedef const T& const_reference;
    typedef std::size_t size_type;
    typedef std::ptrdiff_t difference_type;
    template <class U>
    struct rebind {
        typedef ArenaAllocator<U> other;
    };
    int arena;
    ArenaAllocator() noexcept {
        AllocLedger& l = AllocLedger::get();
        std::lock_guard<std::mutex> g(l.m);
        arena = l.next_arena++;
    }
    ArenaAllocator(const ArenaAllocator& o) noexcept : arena(o.arena) {}
    ArenaAllocator& operator=(const ArenaAllocator& o) noexcept {
        arena = o.arena;
        return *this;
    }
    template <class U>
    ArenaAllocator(const ArenaAllocator<U>& o) noexcept : arena(o.arena) {}
    T* allocate(std::size_t n, const void* = nullptr) {
        T* p = static_cast<T*>(::operator new(n * sizeof(T)));
        AllocLedger& l = AllocLedger::get();
        std::lock_guard<std::mutex> g(l.m);
        ++l.allocs;
        l.live[p] = n * sizeof(T);
        l.arena_of[p] = arena;
        return p;
    }
    void deallocate(T* p, std::size_t n) noexcept {
        AllocLedger& l = AllocLedger::get();
        {
            std::lock_guard<std::mutex> g(l.m);
            ++l.frees;
            auto it = l.live.find(p);
            if (it == l.live.end()) pbt::fatal("alloc/free-unknown", "deallocate() of a block that is not live (double or foreign free)");
            if (it->second != n * sizeof(T)) pbt::fatal("alloc/size-mismatch", "deallocate() with a size/type different from allocate()");
            if (l.arena_of[p] != arena) pbt::fatal("alloc/wrong-allocator-instance", "block returned through an allocator instance (arena) other than the one it was obtained from");
            l.live.erase(it);
            l.arena_of.erase(p);
        }
        ::operator delete(p);
    }
    template <class U, class... A>
    void construct(U* p, A&&... a) { ::new ((void*)p) U(std::forward<A>(a)...); }
    template <class U>
    void destroy(U* p) { p->~U(); }
    size_type max_size() const noexcept { return size_type(-1) / sizeof(T); }
    friend bool operator==(const ArenaAllocator& a, const ArenaAllocator& b) { return a.arena == b.arena; }
    friend bool operator!=(const ArenaAllocator& a, const ArenaAllocator& b) { return a.arena != b.arena; }
};

} // namespace verif

namespace std {
template <>
struct hash<verif::Tracked> {
    size_t operator()(const verif::Tracked& t) const { return std::hash<int>()(t.value()); }
};
} // namespace std
